#!/bin/bash
# setup_cmd: offline. Makes sure hypothesis is importable in /venv (installs from the local
# wheelhouse when absent) and pre-builds the current /repo tree into the build cache.
set -e
cd "$(dirname "$(readlink -f "$0")")"
PY=${VERIF_PYTHON:-/venv/bin/python}
if ! $PY -c 'import hypothesis' 2>/dev/null; then
  PIP_NO_INDEX=1 $PY -m pip install --no-index --find-links /opt/veriftools/wheels hypothesis
fi
$PY -c 'import hypothesis, pysam, networkx; print("hypothesis", hypothesis.__version__, "pysam", pysam.__version__)'
PYTHONPATH= $PY -m vlib.build
