"""C09 - PS and HP encodings are equivalent, round-trip, and never mix old and new phase."""
import os
from hypothesis import strategies as st
from hypothesis.stateful import RuleBasedStateMachine, rule, precondition
import pysam

from vlib import genome as G, pipeline as P
from whatshap.core import Read, ReadSet
from whatshap.vcf import PhasedVcfWriter, VcfReader, MixedPhasingError

ID = "C09"
RULE = ("(tags) pipeline cases phased twice with --tag=PS and --tag=HP must decode to the same phase sets and alleles; "
        "(roundtrip) random phasing models (1-2 samples, 3-14 heterozygous variants, interleaved block structure) written by "
        "PhasedVcfWriter with either tag and read back by VcfReader(phases=True) must return exactly what was written; "
        "(vcfinput) a phased VCF (PS or HP, <= 5 interleaved sets, each with >= 2 heterozygous variants) as the only phase "
        "input must reproduce every set (membership, alleles up to swap); (history) rule-based histories over one variant file: "
        "phase(tag, read subset, target samples) / unphase / re-phase - after every phase step the phase statements of target "
        "samples equal those of the same run on the never-phased file and those of non-target samples are untouched. "
        "Non-trivial (history) = a re-phase that switches the tag or phases fewer variants than the file already had; for the "
        "other parts >= 2 phase sets. Distinct = distinct generated case / history.")
ASSUMPTIONS = [
    "orphan PS values on unphased genotypes are not phase statements (no decoder reads them as phase)",
    "a phase statement of a call = (phased GT order + PS) and/or its HP value, extracted with pysam only",
]


def statements(path):
    """{sample: {(chrom, pos0): statement}}; statement = (("GT", order, ps) if phased, ("HP", value) if present)"""
    res = {}
    with pysam.VariantFile(path) as vf:
        for rec in vf:
            keys = list(rec.format.keys())
            for s, call in rec.samples.items():
                st_ = []
                gt = call["GT"] if "GT" in keys else None
                if gt is not None and call.phased and len(gt) > 1:
                    st_.append(("GT", tuple(gt), call["PS"] if "PS" in keys else None))
                if "HP" in keys:
                    hp = call["HP"]
                    if hp is not None and hp != (".",) and hp != (None,) and hp != ("",) and any(x not in (None, "", ".") for x in hp):
                        st_.append(("HP", tuple(hp)))
                if st_:
                    res.setdefault(s, {})[(rec.chrom, rec.start)] = tuple(st_)
    return res


def canonical(dec_sample):
    """decoded phasing of one sample as a comparable value: {(chrom,pos): (alleles, set id)}"""
    return {k: (v[0], v[1]) for k, v in dec_sample.items()}


# ------------------------------------------------------------------ (a) tags

class TagsPart:
    name = "tags"
    budget = {"quick": 640, "thorough": 12000}

    def strategy(self, tier):
        @st.composite
        def case(draw):
            c = P.gen_case(draw, nsamples=(1, 2), depth=(1, 8), paired_share=25, skip_share=10, clip_share=0, eqx_share=0, unsorted_gt_share=30)
            c["max_coverage"] = draw(st.sampled_from([2, 3, 5, 15]))
            return c
        return case()

    def run(self, case, ctx):
        d = ctx.tmp()
        paths, reads = P.materialise(case, d)
        if "bam" not in paths:
            return
        outs = {}
        for tag in ("PS", "HP"):
            out, _ = P.run_phase(d, paths["vcf"], [paths["bam"]], reference=paths["ref"], tag=tag, out_name="out_%s.vcf" % tag,
                                 max_coverage=case["max_coverage"], trace=False)
            outs[tag] = P.decode_phasing(out)
            for s, calls in outs[tag].items():
                for k, v in calls.items():
                    if v[2] != tag:
                        ctx.violation("tags:wrong-encoding", "--tag %s produced a %s-encoded statement at %r" % (tag, v[2], k))
        nsets = 0
        for s in case["samples"]:
            a, b = canonical(outs["PS"].get(s, {})), canonical(outs["HP"].get(s, {}))
            nsets = max(nsets, len({v[1] for v in a.values()}))
            if a != b:
                diff = sorted(k for k in set(a) | set(b) if a.get(k) != b.get(k))[:4]
                ctx.violation("tags:ps-hp-differ", "sample %s: --tag=PS and --tag=HP decode differently at %r: %r vs %r" % (
                    s, diff, [a.get(k) for k in diff], [b.get(k) for k in diff]))
        ctx.nontrivial(nsets >= 2)


# ------------------------------------------------------------------ (b) writer/reader round trip

def gen_model(draw, nsamples=(1, 2)):
    nvar = draw(st.integers(3, 14))
    pos = []
    p = 10
    for _ in range(nvar):
        p += draw(st.integers(1, 40))
        pos.append(p)
    samples = ["s%d" % i for i in range(draw(st.integers(*nsamples)))]
    calls = {}
    for s in samples:
        rows = []
        open_sets = []
        for vi in range(nvar):
            het = draw(st.integers(0, 5)) > 0
            if not het:
                a = draw(st.integers(0, 1))
                rows.append({"alleles": [a, a], "set": None})
                continue
            al = draw(st.sampled_from([[0, 1], [1, 0]]))
            if draw(st.integers(0, 7)) == 0:
                rows.append({"alleles": al, "set": None})
                continue
            if open_sets and draw(st.integers(0, 2)) > 0:
                sid = draw(st.sampled_from(open_sets))
            else:
                sid = pos[vi]
                open_sets.append(sid)
            rows.append({"alleles": al, "set": sid})
        calls[s] = rows
    return {"positions": pos, "samples": samples, "calls": calls}


def write_unphased(model, path, seq=None):
    unsorted = {(vi, s) for vi, s in model.get("unsorted", [])}
    with open(path, "w") as f:
        f.write("##fileformat=VCFv4.2\n##contig=<ID=chr1,length=100000>\n")
        f.write('##FORMAT=<ID=GT,Number=1,Type=String,Description="gt">\n')
        f.write("#CHROM\tPOS\tID\tREF\tALT\tQUAL\tFILTER\tINFO\tFORMAT\t" + "\t".join(model["samples"]) + "\n")
        for vi, p in enumerate(model["positions"]):
            # some unphased genotypes are spelled with descending alleles ('1/0'), which is legal VCF
            gts = ["/".join(map(str, sorted(model["calls"][s][vi]["alleles"], reverse=(vi, s) in unsorted))) for s in model["samples"]]
            f.write("chr1\t%d\t.\tA\tC\t.\tPASS\t.\tGT\t%s\n" % (p + 1, "\t".join(gts)))
    return path


def write_phased(model, path, enc):
    with open(path, "w") as f:
        f.write("##fileformat=VCFv4.2\n##contig=<ID=chr1,length=100000>\n")
        f.write('##FORMAT=<ID=GT,Number=1,Type=String,Description="gt">\n')
        f.write('##FORMAT=<ID=PS,Number=1,Type=Integer,Description="ps">\n##FORMAT=<ID=HP,Number=.,Type=String,Description="hp">\n')
        f.write("#CHROM\tPOS\tID\tREF\tALT\tQUAL\tFILTER\tINFO\tFORMAT\t" + "\t".join(model["samples"]) + "\n")
        for vi, p in enumerate(model["positions"]):
            cols = []
            for s in model["samples"]:
                c = model["calls"][s][vi]
                al = c["alleles"]
                if c["set"] is None:
                    cols.append("/".join(map(str, sorted(al))) + ":.")
                elif enc == "PS":
                    cols.append("%d|%d:%d" % (al[0], al[1], c["set"] + 1))
                else:
                    order = [0, 1] if al[0] <= al[1] else [1, 0]
                    cols.append("%d/%d:%s" % (al[order[0]], al[order[1]], ",".join("%d-%d" % (c["set"] + 1, j + 1) for j in order)))
            f.write("chr1\t%d\t.\tA\tC\t.\tPASS\t.\tGT:%s\t%s\n" % (p + 1, enc, "\t".join(cols)))
    return path


class RoundtripPart:
    name = "roundtrip"
    budget = {"quick": 1600, "thorough": 30000}

    def strategy(self, tier):
        @st.composite
        def case(draw):
            m = gen_model(draw)
            m["tag"] = draw(st.sampled_from(["PS", "HP"]))
            return m
        return case()

    def run(self, model, ctx):
        d = ctx.tmp()
        inp = write_unphased(model, os.path.join(d, "in.vcf"))
        out = os.path.join(d, "out.vcf")
        superreads, components = {}, {}
        for si, s in enumerate(model["samples"]):
            rs = ReadSet()
            r0 = Read("superread_0_%d" % si, -1, -1, si)
            r1 = Read("superread_1_%d" % si, -1, -1, si)
            comp = {}
            for p, c in zip(model["positions"], model["calls"][s]):
                if c["set"] is None:
                    continue
                r0.add_variant(p, c["alleles"][0], 30)
                r1.add_variant(p, c["alleles"][1], 30)
                comp[p] = c["set"]
            rs.add(r0)
            rs.add(r1)
            superreads[s] = rs
            components[s] = comp
        with open(out, "w") as fo:
            with PhasedVcfWriter(command_line=None, in_path=inp, out_file=fo, tag=model["tag"]) as w:
                w.write("chr1", superreads, components)
        P.check_readable(out, "writer")
        with VcfReader(out, phases=True) as reader:
            tables = list(reader)
        if len(tables) != 1:
            ctx.violation("roundtrip:tables", "%d tables" % len(tables))
            return
        t = tables[0]
        nsets = 0
        for s in model["samples"]:
            phases = t.phases_of(s)
            pos = [v.position for v in t.variants]
            got = {p: (tuple(ph.phase), ph.block_id) for p, ph in zip(pos, phases) if ph is not None}
            want = {p: (tuple(c["alleles"]), c["set"] + 1) for p, c in zip(model["positions"], model["calls"][s]) if c["set"] is not None}
            nsets = max(nsets, len({v[1] for v in want.values()}))
            if got != want:
                diff = sorted(k for k in set(got) | set(want) if got.get(k) != want.get(k))[:4]
                ctx.violation("roundtrip:%s" % model["tag"], "sample %s tag %s: written %r, decoded %r" % (s, model["tag"], [want.get(k) for k in diff], [got.get(k) for k in diff]))
            mine = canonical(P.decode_phasing(out).get(s, {}))
            if {k[1]: v for k, v in mine.items()} != want:
                ctx.violation("roundtrip:independent-decoder", "sample %s: pysam-level decoding %r differs from what was written %r" % (s, mine, want))
        ctx.nontrivial(nsets >= 2)
        ctx.label("tag-" + model["tag"])


# ------------------------------------------------------------------ (c) phased VCF as the only phase input

class VcfInputPart:
    name = "vcfinput"
    budget = {"quick": 800, "thorough": 16000}

    def strategy(self, tier):
        @st.composite
        def case(draw):
            m = gen_model(draw, nsamples=(1, 2))
            # at most 5 sets per sample so that 2 pseudo reads per set stay below the cap of 15
            for s in m["samples"]:
                ids = sorted({c["set"] for c in m["calls"][s] if c["set"] is not None})
                keep = set(ids[:5])
                for c in m["calls"][s]:
                    if c["set"] is not None and c["set"] not in keep:
                        c["set"] = None
            m["enc"] = draw(st.sampled_from(["PS", "HP"]))
            m["tag"] = draw(st.sampled_from(["PS", "HP"]))
            if draw(st.integers(0, 2)) == 0:
                m["unsorted"] = [[vi, s] for s in m["samples"] for vi in range(len(m["positions"])) if draw(st.integers(0, 2)) == 0]
            return m
        return case()

    def run(self, model, ctx):
        d = ctx.tmp()
        inp = write_unphased(model, os.path.join(d, "in.vcf"))
        phased = write_phased(model, os.path.join(d, "phased.vcf"), model["enc"])
        out, _ = P.run_phase(d, inp, [phased], reference=None, tag=model["tag"], trace=False)
        dec = P.decode_phasing(out)
        nsets = 0
        for s in model["samples"]:
            sets = {}
            for p, c in zip(model["positions"], model["calls"][s]):
                if c["set"] is not None:
                    sets.setdefault(c["set"], []).append((p, tuple(c["alleles"])))
            got = dec.get(s, {})
            for sid, members in sets.items():
                if len(members) < 2:
                    continue
                nsets += 1
                calls = [got.get(("chr1", p)) for p, _ in members]
                if any(c is None for c in calls):
                    ctx.violation("vcfinput:set-lost", "sample %s: input phase set %d (positions %r) is not completely phased in the output: %r" % (
                        s, sid + 1, [p + 1 for p, _ in members], calls))
                    continue
                if len({c[1] for c in calls}) != 1:
                    ctx.violation("vcfinput:set-split", "sample %s: input phase set %d ends up in output sets %r" % (s, sid + 1, sorted({c[1] for c in calls})))
                o = {0 if tuple(c[0]) == al else (1 if tuple(c[0]) == al[::-1] else 2) for c, (_, al) in zip(calls, members)}
                if o not in ({0}, {1}):
                    ctx.violation("vcfinput:alleles", "sample %s: input phase set %d reproduced with orientations %r" % (s, sid + 1, sorted(o)))
            # no two input sets may be joined
            by_out = {}
            for sid, members in sets.items():
                for p, _ in members:
                    c = got.get(("chr1", p))
                    if c is not None:
                        by_out.setdefault(c[1], set()).add(sid)
            for oid, sids in by_out.items():
                if len(sids) > 1:
                    ctx.violation("vcfinput:sets-joined", "sample %s: output set %r joins input sets %r" % (s, oid, sorted(x + 1 for x in sids)))
        ctx.nontrivial(nsets >= 2)
        ctx.label("enc-%s-tag-%s" % (model["enc"], model["tag"]))


# ------------------------------------------------------------------ (d) histories

class HState:
    def __init__(self):
        self.case = None
        self.dir = None
        self.current = None
        self.step = 0
        self.nt = False
        self.have = {}


class HistoryPart:
    name = "history"
    budget = {"quick": 320, "thorough": 5000}
    steps = 6

    def new_state(self):
        return HState()

    def apply(self, s, op, ctx):
        kind = op[0]
        if kind == "init":
            s.case = op[1]
            s.dir = ctx.tmp()
            case = s.case
            s.ref = G.write_fasta(case["contigs"], os.path.join(s.dir, "ref.fa"))
            s.orig = G.write_vcf(case, os.path.join(s.dir, "orig.vcf"))
            reads = G.render_specs(case, case["read_specs"])
            s.bams = []
            for k in range(3):
                sub = [r for i, r in enumerate(reads) if i % 3 == k or k == 2]
                if not sub:
                    sub = reads[:1]
                s.bams.append(G.write_bam(case, sub, os.path.join(s.dir, "sub%d.bam" % k)) if sub else None)
            s.current = s.orig
            s.have = {}
            return
        if s.case is None or any(b is None for b in s.bams):
            return
        s.step += 1
        if kind == "unphase":
            from whatshap.cli.unphase import run_unphase
            out = os.path.join(s.dir, "step%d.vcf" % s.step)
            run_unphase(s.current, out)
            P.check_readable(out, "unphase")
            left = statements(out)
            if left:
                ctx.violation("history:unphase-leaves-phase", "after unphase: %r" % {k: list(v.items())[:2] for k, v in left.items()})
            s.current = out
            s.have = {}
            ctx.label("unphase")
            return
        _, tag, subset, samples = op[:4]
        samples = [x for x in samples if x in s.case["samples"]] or None
        before = statements(s.current)
        kw = {"samples": list(samples)} if samples else {}
        if len(op) > 4 and op[4]:
            # a run restricted to SNVs must still drop the phase an earlier run gave to the records it now skips
            kw["only_snvs"] = True
            ctx.label("phase --only-snvs")
        out, _ = P.run_phase(s.dir, s.current, [s.bams[subset]], reference=s.ref, tag=tag, out_name="step%d.vcf" % s.step, trace=False, **kw)
        refout, _ = P.run_phase(s.dir, s.orig, [s.bams[subset]], reference=s.ref, tag=tag, out_name="ref%d.vcf" % s.step, trace=False, **kw)
        after = statements(out)
        fresh = statements(refout)
        targets = samples or s.case["samples"]
        rephase = any(before.get(t) for t in targets)
        for t in s.case["samples"]:
            if t in targets:
                if after.get(t, {}) != fresh.get(t, {}):
                    a, f = after.get(t, {}), fresh.get(t, {})
                    diff = sorted(k for k in set(a) | set(f) if a.get(k) != f.get(k))[:3]
                    prev_tags = sorted({x[0] for k in diff for x in before.get(t, {}).get(k, ())})
                    sig = "history:stale-phase:%s-after-%s" % (tag, "+".join(prev_tags) or "none")
                    ctx.violation(sig, "sample %s after %r: statements at %r are %r, a run on the never-phased file gives %r (before this step: %r)" % (
                        t, op, diff, [a.get(k) for k in diff], [f.get(k) for k in diff], [before.get(t, {}).get(k) for k in diff]))
            elif after.get(t, {}) != before.get(t, {}):
                ctx.violation("history:non-target-touched", "sample %s is not a target of %r but its phase statements changed" % (t, op))
        if set(targets) == set(s.case["samples"]):
            try:
                with VcfReader(out, phases=True) as reader:
                    list(reader)
            except MixedPhasingError as e:
                ctx.violation("history:mixed-phasing", "whatshap's own reader rejects the output of %r: %s" % (op, e))
        if rephase:
            ctx.label("re-phase")
            prev_tag = {x[0] for t in targets for v in before.get(t, {}).values() for x in v}
            newcount = sum(len(after.get(t, {})) for t in targets)
            oldcount = sum(len(before.get(t, {})) for t in targets)
            if ("HP" if tag == "PS" else "GT") in prev_tag or newcount < oldcount:
                s.nt = True
        s.current = out

    def finish(self, s, ctx):
        ctx.nontrivial(s.nt)

    def run(self, case, ctx):
        s = self.new_state()
        for op in case["ops"]:
            self.apply(s, op, ctx)
        self.finish(s, ctx)

    def machine(self, tier):
        class HistoryMachine(RuleBasedStateMachine):
            @precondition(lambda self: self.state.case is None)
            @rule(data=st.data())
            def init(self, data):
                c = data.draw(st.composite(lambda draw: P.gen_case(draw, nsamples=(1, 2), ncontigs=(1, 1), length=(400, 800), depth=(2, 7),
                                                                    paired_share=20, clip_share=0, eqx_share=0, unsorted_gt_share=30))())
                self.step(["init", c])

            @precondition(lambda self: self.state.case is not None)
            @rule(tag=st.sampled_from(["PS", "HP"]), subset=st.integers(0, 2), which=st.integers(0, 2), only_snvs=st.sampled_from([False, False, True]))
            def phase(self, tag, subset, which, only_snvs):
                samples = self.state.case["samples"]
                sel = [] if which == 0 or len(samples) == 1 else [samples[which - 1]]
                self.step(["phase", tag, subset, sel, only_snvs])

            @precondition(lambda self: self.state.case is not None and self.state.current != self.state.orig)
            @rule()
            def unphase(self):
                self.step(["unphase"])

        return HistoryMachine


PARTS = [TagsPart(), RoundtripPart(), VcfInputPart(), HistoryPart()]
