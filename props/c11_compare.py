"""C11 - compare reports the defined error counts, independent of haplotype labelling."""
import contextlib, io, itertools, os
from hypothesis import strategies as st

from vlib import oracles
from whatshap.cli.compare import run_compare
from whatshap.cli import CommandLineError

ID = "C11"
RULE = ("Two or three single-sample phased VCFs over a common variant list (1-2 chromosomes, 3-14 variants each, some "
        "variants absent or homozygous in a file), random phase-set structure per file (so intersection blocks of "
        "length 1, 2, 3, ... arise), ploidy 2-4, PS or HP encoding per file, a share of multi-allelic heterozygous sites, "
        "a share of identical files, a sixth of the biallelic records insertions with --only-snvs in a quarter of the cases (such "
        "records then do not exist for the comparison), different sample names with --ignore-sample-name in a fifth. Oracle: brute-force definitions per intersection block (orientation sequence for "
        "ploidy 2: switches, run-length switch/flip decomposition, Hamming as minimum over the two correspondences; "
        "minimum over permutation sequences for ploidy >= 3), switch positions for the BED file, agreement column of the "
        "longest block, multiway bipartition counts; metamorphic: permuting the haplotype order of any phase set in any "
        "file leaves all outputs unchanged. Non-trivial = an intersection block of length >= 3 with >= 1 error. "
        "Distinct = distinct generated case.")
ASSUMPTIONS = [
    "all files contain one sample with the same name; every GT has the stated ploidy (the reader rejects anything else)",
    "for ploidy >= 3 only the total switch+flip cost under unit costs is compared (the split of an optimum is not unique)",
    "switch/flip, Hamming and BED are judged on intersection blocks whose genotypes agree at every position; blocks with "
    "differing genotypes are judged on the genotype-difference count and (ploidy >= 3) the brute-force minima only",
]

BASES = "ACGT"


def gen_case(draw, ploidy, nfiles, dense=False):
    """dense: one chromosome, (almost) one block, an error event at most variants - the regime in which the permutation
    dynamic program of the polyploid comparison has to keep many undominated entries"""
    nchrom = 1 if dense else draw(st.integers(1, 2))
    chroms = []
    for ci in range(nchrom):
        nvar = draw(st.integers(2, 8)) if dense else draw(st.integers(3, 14 if ploidy == 2 else (8 if ploidy == 3 else 6)))
        pos = 0
        variants = []
        for _ in range(nvar):
            pos += draw(st.integers(1, 200))
            ref = draw(st.sampled_from(BASES))
            nalts = 2 if draw(st.integers(0, 7)) == 0 else 1
            alts = [b for b in BASES if b != ref][:nalts]
            if nalts == 1 and draw(st.integers(0, 5)) == 0:
                alts = [ref + "T"]      # an insertion: ignored altogether under --only-snvs
            variants.append({"pos": pos, "ref": ref, "alts": alts})
        chroms.append({"name": "chr%d" % (ci + 1), "variants": variants})
    # a base phasing per chromosome; other files are noisy copies so that errors are sparse
    identical = draw(st.integers(0, 9)) == 0
    files = []
    base = {}
    for c in chroms:
        rows = []
        for v in c["variants"]:
            amax = len(v["alts"])
            al = [draw(st.integers(0, amax)) for _ in range(ploidy)]
            if len(set(al)) == 1:
                al[draw(st.integers(0, ploidy - 1))] = (al[0] + 1) % (amax + 1)
            rows.append(al)
        base[c["name"]] = rows
    for fi in range(nfiles):
        enc = draw(st.sampled_from(["PS", "PS", "HP"]))
        calls = {}
        nbreak = draw(st.sampled_from([0, 0, 0, 1])) if dense else draw(st.sampled_from([0, 1, 2, 4]))
        for c in chroms:
            rows = []
            cur = draw(st.integers(1, 5))
            open_sets = [cur]
            orient = list(range(ploidy))
            for vi, v in enumerate(c["variants"]):
                if not dense and draw(st.integers(0, 11)) == 0:
                    rows.append(None)  # record absent from this file
                    continue
                al = list(base[c["name"]][vi])
                if fi > 0 and not identical:
                    r = draw(st.integers(0, 3 if dense else 9))
                    if dense and r == 2:
                        r = 1
                    if r == 0:
                        # switch: from here on use another haplotype correspondence
                        orient = list(draw(st.permutations(list(range(ploidy)))))
                    al = [al[orient[j]] for j in range(ploidy)]
                    if r == 1:
                        # flip: isolated permutation at this site only
                        al = list(draw(st.permutations(al)))
                    if r == 2:
                        # genotype difference
                        amax = len(v["alts"])
                        al[draw(st.integers(0, ploidy - 1))] = draw(st.integers(0, amax))
                het = len(set(al)) > 1
                if nbreak and draw(st.integers(0, 11)) < nbreak:
                    if draw(st.booleans()) or len(open_sets) == 1:
                        cur = max(open_sets) + draw(st.integers(1, 3))
                        open_sets.append(cur)
                    else:
                        cur = draw(st.sampled_from(open_sets))
                phased = het and (dense or draw(st.integers(0, 9)) > 0)
                rows.append({"alleles": al, "set": cur if phased else None})
            calls[c["name"]] = rows
        files.append({"enc": enc, "calls": calls})
    if identical and nfiles >= 2:
        for fi in range(1, nfiles):
            files[fi]["calls"] = {k: [None if r is None else dict(r) for r in v] for k, v in files[0]["calls"].items()}
    # metamorphic relabelling: per file, per (chrom, set) a permutation
    relabel = []
    for fi, f in enumerate(files):
        for cname, rows in f["calls"].items():
            for sid in sorted({r["set"] for r in rows if r and r["set"] is not None}):
                if draw(st.booleans()):
                    relabel.append([fi, cname, sid, list(draw(st.permutations(list(range(ploidy)))))])
    return {"ploidy": ploidy, "chroms": chroms, "files": files, "relabel": relabel, "only_snvs": draw(st.integers(0, 3)) == 0,
            "ignore_sample_name": draw(st.integers(0, 4)) == 0}


def visible_case(case):
    """what the tool is asked to compare: under --only-snvs the non-SNV records do not exist"""
    if not case.get("only_snvs"):
        return case
    o = dict(case)
    o["_full"] = case
    o["files"] = []
    for f in case["files"]:
        calls = {}
        for c in case["chroms"]:
            calls[c["name"]] = [call if all(len(a) == 1 for a in v["alts"]) and len(v["ref"]) == 1 else None
                                for v, call in zip(c["variants"], f["calls"][c["name"]])]
        o["files"].append(dict(f, calls=calls))
    return o


def write_file(case, fi, path, relabel=None):
    case = case.get("_full", case)
    f = case["files"][fi]
    ploidy = case["ploidy"]
    perm = {}
    for r in (relabel or []):
        if r[0] == fi:
            perm[(r[1], r[2])] = r[3]
    with open(path, "w") as out:
        out.write("##fileformat=VCFv4.2\n")
        for c in case["chroms"]:
            out.write("##contig=<ID=%s,length=100000>\n" % c["name"])
        out.write('##FORMAT=<ID=GT,Number=1,Type=String,Description="gt">\n')
        out.write('##FORMAT=<ID=PS,Number=1,Type=Integer,Description="ps">\n')
        out.write('##FORMAT=<ID=HP,Number=.,Type=String,Description="hp">\n')
        out.write("#CHROM\tPOS\tID\tREF\tALT\tQUAL\tFILTER\tINFO\tFORMAT\t%s\n" % ("sample%d" % fi if case.get("ignore_sample_name") else "sample"))
        for c in case["chroms"]:
            for v, call in zip(c["variants"], f["calls"][c["name"]]):
                if call is None:
                    continue
                al = list(call["alleles"])
                sid = call["set"]
                if sid is not None and (c["name"], sid) in perm:
                    pi = perm[(c["name"], sid)]
                    al = [al[pi[j]] for j in range(ploidy)]
                if sid is None:
                    fmt, val = "GT", "/".join(map(str, sorted(al)))
                elif f["enc"] == "PS":
                    fmt, val = "GT:PS", "|".join(map(str, al)) + ":%d" % sid
                else:
                    # HP: GT unphased in arbitrary order; HP names the haplotype of each listed allele
                    order = list(range(ploidy))
                    order.sort(key=lambda j: (al[j], -j))
                    gt = "/".join(str(al[j]) for j in order)
                    hp = ",".join("%d-%d" % (sid, j + 1) for j in order)
                    fmt, val = "GT:HP", gt + ":" + hp
                out.write("%s\t%d\t.\t%s\t%s\t.\tPASS\t.\t%s\t%s\n" % (c["name"], v["pos"], v["ref"], ",".join(v["alts"]), fmt, val))
    return path


def run_tool(case, d, tag, relabel=None):
    ploidy = case["ploidy"]
    n = len(case["files"])
    paths = [write_file(case, i, os.path.join(d, "%s_f%d.vcf" % (tag, i)), relabel) for i in range(n)]
    out = {"pair": os.path.join(d, tag + "_pair.tsv")}
    kw = {}
    if ploidy == 2:
        out["bed"] = os.path.join(d, tag + ".bed")
        out["longest"] = os.path.join(d, tag + "_longest.tsv")
        kw.update(switch_error_bed=out["bed"], longest_block_tsv=out["longest"])
        if n > 2:
            out["multi"] = os.path.join(d, tag + "_multi.tsv")
            kw.update(tsv_multiway=out["multi"])
    buf = io.StringIO()
    try:
        with contextlib.redirect_stdout(buf):
            run_compare(paths, ploidy, tsv_pairwise=out["pair"], only_snvs=bool(case.get("only_snvs")),
                        ignore_sample_name=bool(case.get("ignore_sample_name")), **kw)
    except CommandLineError as e:
        return {"rejected": str(e)}
    res = {}
    rows = []
    with open(out["pair"]) as f:
        hdr = f.readline().rstrip("\n").lstrip("#").split("\t")
        for line in f:
            rows.append(dict(zip(hdr, line.rstrip("\n").split("\t"))))
    res["pair"] = rows
    for k in ("bed", "longest", "multi"):
        if k in out:
            with open(out[k]) as f:
                res[k] = [l.rstrip("\n").split("\t") for l in f if not l.startswith("#")]
    return res


def intersection_blocks(case, cname, i, j):
    """list of blocks: each a list of variant indices (common het & phased in both), grouped by (set_i, set_j)"""
    ci = case["files"][i]["calls"][cname]
    cj = case["files"][j]["calls"][cname]
    blocks = {}
    for vi in range(len(ci)):
        a, b = ci[vi], cj[vi]
        if a is None or b is None:
            continue
        if len(set(a["alleles"])) < 2 or len(set(b["alleles"])) < 2:
            continue
        if a["set"] is None or b["set"] is None:
            continue
        blocks.setdefault((a["set"], b["set"]), []).append(vi)
    return [b for b in blocks.values() if len(b) >= 2]


def fnum(x):
    return float(x)


def sf(x):
    a, b = x.split("/")
    return float(a), float(b)


def close(a, b):
    return abs(a - b) <= 1e-9


class ComparePart:
    name = "pair"
    ploidies = (2, 2, 2, 3, 4)
    nfiles = 2
    budget = {"quick": 9600, "thorough": 160000}

    def strategy(self, tier):
        part = self

        @st.composite
        def case(draw):
            return gen_case(draw, draw(st.sampled_from(part.ploidies)), part.nfiles)
        return case()

    def run(self, case, ctx):
        d = ctx.tmp()
        ploidy = case["ploidy"]
        case = visible_case(case)
        res = run_tool(case, d, "a")
        ctx.label("ploidy-%d" % ploidy)
        if case.get("only_snvs"):
            ctx.label("only-snvs")
        if case.get("ignore_sample_name"):
            ctx.label("ignore-sample-name")
        # a chromosome is "in a file" when the file has any record on it, also one that --only-snvs makes the reader skip
        common = [c for c in case["chroms"] if all(any(x is not None for x in f["calls"][c["name"]]) for f in case.get("_full", case)["files"])]
        if "rejected" in res:
            # documented rejection: no chromosome occurs in all files
            if common:
                ctx.violation("compare:spurious-rejection", "rejected with %r although %r occur in all files" % (res["rejected"], [c["name"] for c in common]))
            else:
                ctx.label("rejected-no-common-chromosome")
            return
        nt = False
        pairs = list(itertools.combinations(range(len(case["files"])), 2))
        rows = {(r["chromosome"], r["dataset_name0"], r["dataset_name1"]): r for r in res["pair"]}
        exp_bed = []
        for c in common:
            cname = c["name"]
            for (i, j) in pairs:
                row = rows.get((cname, "file%d" % i, "file%d" % j))
                if row is None:
                    ctx.violation("compare:missing-row", "no pairwise row for %s file%d/file%d" % (cname, i, j))
                    continue
                blocks = intersection_blocks(case, cname, i, j)
                tot = {"switches": 0.0, "s": 0.0, "f": 0.0, "sf_total": 0.0, "hamming": 0.0, "diffgt": 0, "pairs": 0, "vars": 0}
                judged_all = True
                longest = None
                for blk in blocks:
                    ph0 = [[case["files"][i]["calls"][cname][vi]["alleles"][h] for vi in blk] for h in range(ploidy)]
                    ph1 = [[case["files"][j]["calls"][cname][vi]["alleles"][h] for vi in blk] for h in range(ploidy)]
                    diff = sum(1 for k in range(len(blk)) if sorted(h[k] for h in ph0) != sorted(h[k] for h in ph1))
                    e = {"diffgt": diff, "len": len(blk), "blk": blk}
                    if ploidy == 2:
                        o = oracles.diploid_orientation_errors(ph0, ph1) if diff == 0 else None
                        if o is None:
                            e["judged"] = False
                            judged_all = False
                        else:
                            e.update(judged=True, switches=o["switches"], s=o["s"], f=o["f"], hamming=o["hamming"], orientation=o["orientation"])
                            for k in o["switch_positions"]:
                                exp_bed.append((cname, c["variants"][blk[k]]["pos"], c["variants"][blk[k + 1]]["pos"], "file%d<-->file%d" % (i, j)))
                            if len(blk) >= 3 and (o["switches"] or o["hamming"]):
                                nt = True
                    else:
                        sw, ncols = oracles.poly_switch_errors(ph0, ph1)
                        e.update(judged=True, switches=sw, sf_total=oracles.poly_switch_flip_total(ph0, ph1), hamming=oracles.poly_hamming(ph0, ph1))
                        if len(blk) >= 3 and (sw or e["hamming"]):
                            nt = True
                    tot["diffgt"] += diff
                    tot["pairs"] += len(blk) - 1
                    tot["vars"] += len(blk)
                    if e["judged"]:
                        tot["switches"] += e["switches"]
                        tot["hamming"] += e["hamming"]
                        if ploidy == 2:
                            tot["s"] += e["s"]
                            tot["f"] += e["f"]
                        else:
                            tot["sf_total"] += e["sf_total"]
                    if longest is None or e["len"] > longest["len"]:
                        longest = e
                # structure counts (always judged)
                for key, want in (("intersection_blocks", len(blocks)), ("covered_variants", tot["vars"]),
                                  ("all_assessed_pairs", tot["pairs"]), ("blockwise_diff_genotypes", tot["diffgt"])):
                    if not close(fnum(row[key]), want):
                        ctx.violation("compare:" + key, "%s file%d/file%d: %s reported %s, expected %r" % (cname, i, j, key, row[key], want))
                if longest is not None:
                    if not close(fnum(row["largestblock_assessed_pairs"]), longest["len"] - 1):
                        ctx.violation("compare:largest-block", "%s: largest block pairs %s, expected %d" % (cname, row["largestblock_assessed_pairs"], longest["len"] - 1))
                    if not close(fnum(row["largestblock_diff_genotypes"]), longest["diffgt"]):
                        ctx.violation("compare:largest-block", "%s: largest block diff genotypes %s, expected %d" % (cname, row["largestblock_diff_genotypes"], longest["diffgt"]))
                sig_pl = "" if ploidy == 2 else ":polyploid"
                if judged_all:
                    if not close(fnum(row["all_switches"]), tot["switches"]):
                        ctx.violation("compare:switches" + sig_pl, "%s file%d/file%d: switch errors reported %s, definition %r" % (cname, i, j, row["all_switches"], tot["switches"]))
                    if not close(fnum(row["blockwise_hamming"]), tot["hamming"]):
                        ctx.violation("compare:hamming" + sig_pl, "%s file%d/file%d: Hamming reported %s, definition %r" % (cname, i, j, row["blockwise_hamming"], tot["hamming"]))
                    rs, rf = sf(row["all_switchflips"])
                    if ploidy == 2:
                        if not (close(rs, tot["s"]) and close(rf, tot["f"])):
                            ctx.violation("compare:switchflips", "%s file%d/file%d: switch/flip reported %s, definition %r/%r" % (cname, i, j, row["all_switchflips"], tot["s"], tot["f"]))
                        if not close(fnum(row["all_switches"]), rs + 2 * rf):
                            ctx.violation("compare:identity", "%s: switches %s != s + 2f = %r" % (cname, row["all_switches"], rs + 2 * rf))
                    elif not close(rs + rf, tot["sf_total"]):
                        ctx.violation("compare:switchflips:polyploid", "%s file%d/file%d: switch+flip total reported %s, brute-force minimum %r" % (cname, i, j, row["all_switchflips"], tot["sf_total"]))
                if longest is not None and longest["judged"]:
                    if not close(fnum(row["largestblock_switches"]), longest["switches"]):
                        ctx.violation("compare:largest-block" + sig_pl, "%s: largest block switches %s, definition %r" % (cname, row["largestblock_switches"], longest["switches"]))
                    if not close(fnum(row["largestblock_hamming"]), longest["hamming"]):
                        ctx.violation("compare:largest-block" + sig_pl, "%s: largest block Hamming %s, definition %r" % (cname, row["largestblock_hamming"], longest["hamming"]))
                    if ploidy == 2 and len(case["files"]) == 2:
                        lines = [l for l in res["longest"] if l[3] == cname]
                        want_pos = [c["variants"][vi]["pos"] - 1 for vi in longest["blk"]]
                        got_pos = [int(l[4]) for l in lines]
                        if got_pos != want_pos:
                            ctx.violation("compare:longest-block-tsv-positions", "%s: positions %r, expected %r" % (cname, got_pos, want_pos))
                        else:
                            dis = sum(1 for l in lines if l[5] == "0")
                            if dis != longest["hamming"]:
                                ctx.violation("compare:longest-block-agreement", "%s: %d positions marked as disagreeing, Hamming distance of the block is %d (agreement %r, orientation %r)" % (
                                    cname, dis, longest["hamming"], [l[5] for l in lines], longest["orientation"]))
                elif ploidy == 2 and len(case["files"]) == 2 and longest is None:
                    if [l for l in res["longest"] if l[3] == cname]:
                        ctx.violation("compare:longest-block-tsv-positions", "%s: lines without an intersection block" % cname)
                # identical inputs => zero
                if case["files"][i]["calls"][cname] == case["files"][j]["calls"][cname]:
                    ctx.label("identical-files")
                    for key in ("all_switches", "blockwise_hamming", "blockwise_diff_genotypes"):
                        if not close(fnum(row[key]), 0):
                            ctx.violation("compare:identical-nonzero", "%s: %s = %s for identical phasings" % (cname, key, row[key]))
                    if sf(row["all_switchflips"]) != (0.0, 0.0):
                        ctx.violation("compare:identical-nonzero", "%s: switch/flip %s for identical phasings" % (cname, row["all_switchflips"]))
        if ploidy == 2 and "bed" in res and all(b for b in [True]):
            got = sorted((l[0], int(l[1]), int(l[2]), l[3]) for l in res["bed"])
            # BED is only judged when every block of every pair could be judged
            if self._all_judged(case):
                if got != sorted(exp_bed):
                    ctx.violation("compare:bed", "BED records %r, expected switch positions %r" % (got, sorted(exp_bed)))
        if "multi" in res:
            self.check_multiway(case, res, ctx)
        # metamorphic: relabel haplotypes inside phase sets
        if case["relabel"]:
            res2 = run_tool(case, d, "b", case["relabel"])
            if "rejected" in res2:
                ctx.violation("compare:relabel:rejected", res2["rejected"])
                return
            self.compare_outputs(case, res, res2, ctx)
            ctx.label("relabelled")
        ctx.nontrivial(nt)

    def _all_judged(self, case):
        for c in case["chroms"]:
            for i, j in itertools.combinations(range(len(case["files"])), 2):
                for blk in intersection_blocks(case, c["name"], i, j):
                    for vi in blk:
                        a = case["files"][i]["calls"][c["name"]][vi]["alleles"]
                        b = case["files"][j]["calls"][c["name"]][vi]["alleles"]
                        if sorted(a) != sorted(b):
                            return False
        return True

    def compare_outputs(self, case, r1, r2, ctx):
        ploidy = case["ploidy"]
        judged = self._all_judged(case)
        keys = ["intersection_blocks", "covered_variants", "all_assessed_pairs", "blockwise_hamming",
                "blockwise_diff_genotypes", "largestblock_assessed_pairs", "largestblock_hamming", "largestblock_diff_genotypes"]
        if judged or ploidy > 2:
            keys += ["all_switches", "largestblock_switches"]
        else:
            # diploid switch counts are only defined where both files have the same genotype at every position of a block
            ctx.label("relabel-without-switch-comparison")
        for a, b in zip(r1["pair"], r2["pair"]):
            for k in keys:
                if not close(fnum(a[k]), fnum(b[k])):
                    ctx.violation("compare:relabel:" + ("pairwise" if ploidy == 2 else "pairwise:polyploid"),
                                  "%s %s/%s: %s changes from %s to %s when haplotypes of phase sets are relabelled %r" % (
                                      a["chromosome"], a["dataset_name0"], a["dataset_name1"], k, a[k], b[k], case["relabel"]))
            s1, s2 = sf(a["all_switchflips"]), sf(b["all_switchflips"])
            if ploidy == 2:
                if judged and s1 != s2:
                    ctx.violation("compare:relabel:pairwise", "switch/flip changes from %r to %r under relabelling" % (s1, s2))
            elif not close(sum(s1), sum(s2)):
                ctx.violation("compare:relabel:pairwise:polyploid", "switch+flip total changes from %r to %r under relabelling" % (s1, s2))
        for k in ("bed", "multi"):
            if k in r1 and judged and sorted(r1[k]) != sorted(r2[k]):
                ctx.violation("compare:relabel:" + k, "%s output changes under relabelling: %r -> %r" % (k, r1[k], r2[k]))
        if "longest" in r1 and len(case["files"]) == 2 and judged:
            # the agreement vector itself is ambiguous when both correspondences are equally good; its positions and
            # the number of disagreements are not
            k1 = [(l[3], l[4]) for l in r1["longest"]], sorted((l[3], l[5]) for l in r1["longest"])
            k2 = [(l[3], l[4]) for l in r2["longest"]], sorted((l[3], l[5]) for l in r2["longest"])
            if k1 != k2:
                ctx.violation("compare:relabel:longest-block-tsv", "longest-block agreement changes under relabelling %r: %r -> %r" % (
                    case["relabel"], [l[4:] for l in r1["longest"]], [l[4:] for l in r2["longest"]]))

    def check_multiway(self, case, res, ctx):
        n = len(case["files"])
        for c in case["chroms"]:
            cname = c["name"]
            if not all(any(x is not None for x in f["calls"][cname]) for f in case["files"]):
                continue
            blocks = {}
            for vi in range(len(c["variants"])):
                calls = [f["calls"][cname][vi] for f in case["files"]]
                if any(x is None or len(set(x["alleles"])) < 2 or x["set"] is None for x in calls):
                    continue
                blocks.setdefault(tuple(x["set"] for x in calls), []).append(vi)
            hist = {}
            biallelic = True
            for blk in blocks.values():
                if len(blk) < 2:
                    continue
                for a, b in zip(blk, blk[1:]):
                    rel = []
                    for f in case["files"]:
                        x, y = f["calls"][cname][a]["alleles"], f["calls"][cname][b]["alleles"]
                        if max(x) > 1 or max(y) > 1:
                            biallelic = False
                        rel.append("0" if x[0] == y[0] else "1")
                    s = "".join(rel)
                    comp = "".join("1" if ch == "0" else "0" for ch in s)
                    s = min(s, comp)
                    left = ",".join("file%d" % k for k in range(n) if s[k] == "0")
                    right = ",".join("file%d" % k for k in range(n) if s[k] == "1")
                    key = ("{" + left + "}", "{" + right + "}")
                    hist[key] = hist.get(key, 0) + 1
            got = {(l[2], l[3]): int(l[4]) for l in res["multi"] if l[1] == cname}
            if biallelic and got != hist:
                ctx.violation("compare:multiway", "%s: multiway counts %r, expected %r" % (cname, got, hist))


class DensePart(ComparePart):
    """ploidy 3-4, dense switch / flip events inside one block"""
    name = "poly-dense"
    ploidies = (3, 4, 4)
    nfiles = 2
    budget = {"quick": 9600, "thorough": 200000}

    def strategy(self, tier):
        part = self

        @st.composite
        def case(draw):
            return gen_case(draw, draw(st.sampled_from(part.ploidies)), part.nfiles, dense=True)
        return case()


class TriplePart(ComparePart):
    name = "triple"
    ploidies = (2,)
    nfiles = 3
    budget = {"quick": 2400, "thorough": 40000}


PARTS = [ComparePart(), TriplePart(), DensePart()]
