"""C12 - stats counts add up and describe the phase sets present in the file."""
import contextlib, io, os, statistics
from hypothesis import strategies as st

from vlib import vcfmodel as vm
from whatshap.cli.stats import run_stats

ID = "C12"
RULE = ("Generated VCF models of one ploidy (2-4) and one phase encoding per file (PS / HP / none): 1-3 samples, 1-3 "
        "contigs, 1-14 records, het / hom / missing / partially missing calls, phased homozygous calls, stale PS values, "
        "interleaved and nested phase sets with arbitrary ids, multi-ALT, ALT-less and duplicate-position records; options "
        "--sample, --only-snvs, --chromosome. Oracle: independent count from the model (variants = biallelic, "
        "first-at-position records; heterozygous = complete GT with >= 2 distinct alleles; phased = het with a phase "
        "statement grouped by set id), the identities of the statement, block list lines, bp sum vs. interval union, ALL "
        "row = sum of rows. Non-trivial = file with a missing/partial call or two interleaved sets or >= 2 chromosomes, "
        "and at least one block. Distinct = distinct (model, options).")
ASSUMPTIONS = [
    "files use a single phase encoding (mixing HP and PS in one chromosome is rejected by the reader with MixedPhasingError, which is documented behaviour)",
    "the reader's documented skipping rule defines 'variants': records without ALT, multi-ALT records, non-SNVs with --only-snvs and later records at an already seen position are not counted",
    "a phased GT without PS value belongs to set 0; the printed id of such a set is not compared",
]

ADDITIVE = ["variants", "phased", "unphased", "singletons", "blocks", "variant_per_block_sum", "bp_per_block_sum",
            "heterozygous_variants", "heterozygous_snvs", "phased_snvs"]


def expected_stats(model, truth, si, only_snvs, chroms):
    """independent count from the model; returns per-chromosome dict"""
    res = {}
    order = []
    for ri, rec in enumerate(model["records"]):
        c = rec["chrom"]
        if c not in res:
            res[c] = {"variants": 0, "het": 0, "het_snv": 0, "unphased": 0, "sets": {}, "last_pos": None, "seq": []}
            order.append(c)
        e = res[c]
        if not rec["alts"] or len(rec["alts"]) > 1:
            continue
        is_snv = len(rec["ref"]) == 1 and len(rec["alts"][0]) == 1
        if only_snvs and not is_snv:
            continue
        if e["last_pos"] == rec["pos"]:
            continue
        e["last_pos"] = rec["pos"]
        e["variants"] += 1
        t = truth[ri][si]
        al = t["alleles"]
        if al is None or any(a is None for a in al) or len(set(al)) < 2:
            continue
        e["het"] += 1
        if is_snv:
            e["het_snv"] += 1
        if not t["phased"]:
            e["unphased"] += 1
            continue
        sid = t["set"]
        e["sets"].setdefault(sid, []).append((rec["pos"], is_snv))
        e["seq"].append((sid, rec["pos"]))
    return res, order


def union_length(intervals):
    tot = 0
    end = None
    for a, b in sorted(intervals):
        if end is None or a > end:
            tot += b - a
            end = b
        elif b > end:
            tot += b - end
            end = b
    return tot


def parse_tsv(path):
    rows = {}
    with open(path) as f:
        header = f.readline().rstrip("\n").split("\t")
        for line in f:
            vals = line.rstrip("\n").split("\t")
            d = dict(zip(header, vals))
            rows[d["chromosome"]] = d
    return rows


def num(x):
    try:
        return int(x)
    except ValueError:
        return float(x)


class StatsPart:
    name = "stats"
    budget = {"quick": 8000, "thorough": 120000}

    def strategy(self, tier):
        @st.composite
        def case(draw):
            enc = draw(st.sampled_from(["PS", "PS", "HP", "none"]))
            ploidy = draw(st.sampled_from([2, 2, 2, 3, 4]))
            if draw(st.booleans()):
                # phase-heavy profile: mostly heterozygous phased calls spread over a few interleaved sets
                clean = draw(st.booleans())
                model, truth = vm.gen_vcf(draw, nrecords=(4, 20), ncontigs=(1, 2), nsamples=(1, 2), ploidy_choices=(ploidy,),
                                          phasing=(enc,), no_alt=not clean, multiallelic=not clean, duplicates=not clean,
                                          hom_phased=True, stale_ps=(enc == "PS"), interleave=True,
                                          modes=("het", "het", "het", "het", "het", "het", "hom", "partial", "missing"),
                                          phase_odds=8, new_set_odds=draw(st.sampled_from([1, 2, 3])), extra_fields=False)
            else:
                model, truth = vm.gen_vcf(draw, nrecords=(1, 14), ploidy_choices=(ploidy,), phasing=(enc,), no_alt=True,
                                          hom_phased=True, stale_ps=(enc == "PS"), interleave=draw(st.booleans()))
            opts = {"sample": draw(st.sampled_from([None] + model["samples"])),
                    "only_snvs": draw(st.integers(0, 3)) == 0,
                    "chromosomes": draw(st.sampled_from([None, None, None, ["chr1"], ["chr2"], ["chr3"], ["chr1,chr2"], ["chr2", "chr1"],
                                                         ["chr1,chr3"], ["chr3", "chr1"], ["chr2,chr3"], ["chr3,chr2,chr1"]])),
                    "gtf": draw(st.booleans()), "indexed": draw(st.integers(0, 2)) == 0}
            return {"model": model, "truth": truth, "opts": opts}
        return case()

    def run(self, case, ctx):
        model, truth, opts = case["model"], case["truth"], case["opts"]
        d = ctx.tmp()
        inp = vm.write_vcf(model, os.path.join(d, "in.vcf"))
        if opts.get("indexed"):
            # bgzip + tabix: with --chromosome the tool then fetches the requested chromosomes directly
            inp = vm.bgzip_tabix(inp)
            ctx.label("indexed-input")
        tsv = os.path.join(d, "out.tsv")
        bl = os.path.join(d, "blocks.tsv")
        gtf = os.path.join(d, "out.gtf") if opts["gtf"] else None
        sample = opts["sample"] or model["samples"][0]
        si = model["samples"].index(sample)
        buf = io.StringIO()
        declared = [c[0] for c in model["contigs"]]
        requested = [c for e in (opts["chromosomes"] or []) for c in e.split(",") if c]
        try:
            with contextlib.redirect_stdout(buf):
                rc = run_stats(inp, sample=opts["sample"], gtf=gtf, tsv=tsv, block_list=bl, only_snvs=opts["only_snvs"],
                               chromosomes=opts["chromosomes"])
        except Exception as e:
            # an indexed file is asked for a chromosome it does not declare: the reader's own exception names the contig
            if opts.get("indexed") and type(e).__name__ == "VcfInvalidChromosome" and any(c not in declared for c in requested):
                ctx.label("indexed:undeclared-chromosome-rejected")
                return
            raise
        if rc:
            ctx.violation("stats:returned-error", "run_stats returned %r" % rc)
            return
        given = None
        if opts["chromosomes"]:
            given = [c for e in opts["chromosomes"] for c in e.split(",") if c]
        exp, order = expected_stats(model, truth, si, opts["only_snvs"], given)
        rows = parse_tsv(tsv)
        processed = [c for c in order if not given or c in given]
        if opts.get("indexed") and given:
            # direct lookup: every requested chromosome is reported, also one that is declared but has no record
            for c in given:
                if c not in exp:
                    exp[c] = {"variants": 0, "het": 0, "het_snv": 0, "unphased": 0, "sets": {}, "last_pos": None, "seq": []}
            processed = list(dict.fromkeys(given))
        # the tool stops reading once all requested chromosomes were seen
        nt_missing = any(t[si]["alleles"] is None or any(a is None for a in t[si]["alleles"]) for t in truth)
        interleaved = False
        anyblock = False
        for c in processed:
            if c not in rows:
                # chromosome present in file but no row: only legal if the loop stopped before reaching it
                if given and not opts.get("indexed") and set(given) <= set(order[:order.index(c)]):
                    continue
                if opts.get("indexed") and c not in order:
                    continue        # a requested chromosome without any record: an all-zero row is optional
                ctx.violation("stats:missing-row", "no TSV row for chromosome %s" % c)
                continue
            row = rows[c]
            e = exp[c]
            sets = e["sets"]
            blocks = {k: v for k, v in sets.items() if len(v) >= 2}
            singles = {k: v for k, v in sets.items() if len(v) == 1}
            sizes = sorted(len(v) for v in blocks.values())
            if blocks:
                anyblock = True
            want = {"variants": e["variants"], "heterozygous_variants": e["het"], "heterozygous_snvs": e["het_snv"],
                    "unphased": e["unphased"], "singletons": len(singles), "phased": sum(sizes), "blocks": len(sizes),
                    "variant_per_block_sum": sum(sizes),
                    "phased_snvs": sum(1 for v in blocks.values() for _, s in v if s)}
            if sizes:
                want["variant_per_block_min"] = sizes[0]
                want["variant_per_block_max"] = sizes[-1]
            for k, v in want.items():
                got = num(row[k])
                if got != v:
                    ctx.violation("stats:count:" + k, "chromosome %s: %s reported %r, independent count %r" % (c, k, got, v))
            if sizes:
                if abs(num(row["variant_per_block_median"]) - statistics.median(sizes)) > 1e-9:
                    ctx.violation("stats:count:median", "chromosome %s: median %r vs %r" % (c, row["variant_per_block_median"], statistics.median(sizes)))
                if abs(num(row["variant_per_block_avg"]) - sum(sizes) / len(sizes)) > 1e-9:
                    ctx.violation("stats:count:avg", "chromosome %s: avg %r" % (c, row["variant_per_block_avg"]))
            # identities of the statement on the reported numbers themselves
            if num(row["phased"]) + num(row["unphased"]) + num(row["singletons"]) != num(row["heterozygous_variants"]):
                ctx.violation("stats:identity-het", "chromosome %s: phased+unphased+singletons != heterozygous: %r" % (c, row))
            if num(row["variant_per_block_sum"]) != num(row["phased"]):
                ctx.violation("stats:identity-sum", "chromosome %s: sum of block sizes != phased" % c)
            # block lengths
            ivs = [(min(p for p, _ in v), max(p for p, _ in v)) for v in blocks.values()]
            srt = sorted(ivs)
            overlap = any(srt[i + 1][0] < srt[i][1] for i in range(len(srt) - 1))
            if overlap:
                interleaved = True
            bp = num(row["bp_per_block_sum"])
            if not overlap:
                if bp != sum(b - a for a, b in ivs):
                    ctx.violation("stats:bp-sum", "chromosome %s: bp sum %r, sum of spans %r (no overlapping sets)" % (c, bp, sum(b - a for a, b in ivs)))
            elif bp > union_length(ivs):
                ctx.violation("stats:bp-sum-exceeds-span", "chromosome %s: bp sum %r exceeds covered span %r" % (c, bp, union_length(ivs)))
        # ALL row
        if "ALL" in rows:
            for k in ADDITIVE:
                tot = sum(num(rows[c][k]) for c in rows if c != "ALL")
                if num(rows["ALL"][k]) != tot:
                    ctx.violation("stats:all-row", "ALL row %s = %r, sum of chromosome rows %r" % (k, rows["ALL"][k], tot))
        for c in rows:
            if c != "ALL" and c not in processed:
                ctx.violation("stats:unrequested-row", "row for chromosome %s which was not requested" % c)
        # block list
        want_lines = []
        for c in processed:
            if c not in rows:
                continue
            for sid, v in exp[c]["sets"].items():
                want_lines.append((sample, c, min(p for p, _ in v), max(p for p, _ in v), len(v)))
        got_lines = []
        with open(bl) as f:
            f.readline()
            for line in f:
                s, c, sid, a, b, n = line.rstrip("\n").split("\t")
                got_lines.append((s, c, int(a), int(b), int(n)))
        if sorted(got_lines) != sorted(want_lines):
            ctx.violation("stats:block-list", "block list %r, expected %r" % (sorted(got_lines), sorted(want_lines)))
        # GTF (only judged when no two sets interleave: then exactly one feature per set with its extent)
        if gtf and not interleaved:
            feats = []
            with open(gtf) as f:
                for line in f:
                    p = line.split("\t")
                    feats.append((p[0], int(p[3]), int(p[4])))
            wantf = []
            for c in processed:
                if c not in rows:
                    continue
                runs = []
                for sid, pos in exp[c]["seq"]:
                    if runs and runs[-1][0] == sid:
                        runs[-1][2] = pos
                    else:
                        runs.append([sid, pos, pos])
                if len({r[0] for r in runs}) != len(runs):
                    wantf = None
                    break
                wantf += [(c, a, b) for _, a, b in runs]
            if wantf is not None and sorted(feats) != sorted(wantf):
                ctx.violation("stats:gtf", "GTF features %r, expected %r" % (sorted(feats), sorted(wantf)))
        ctx.nontrivial(anyblock and (nt_missing or interleaved or len(processed) >= 2))
        if nt_missing:
            ctx.label("missing-or-partial-call")
        if interleaved:
            ctx.label("interleaved-sets")
        if len(processed) >= 2:
            ctx.label("multi-chromosome")
        ctx.label("enc-" + model["enc"][0])
        if opts["only_snvs"]:
            ctx.label("only-snvs")


class InterleavedPart(StatsPart):
    """one or two chromosomes, every record a phased heterozygous SNV assigned freely to one of 3-5 phase sets: nested,
    staggered and multiply interleaved layouts (the hard case for the non-overlapping block lengths)"""
    name = "interleaved"
    budget = {"quick": 3200, "thorough": 60000}

    def strategy(self, tier):
        @st.composite
        def case(draw):
            nchrom = draw(st.integers(1, 2))
            records, truth = [], []
            for ci in range(nchrom):
                nsets = draw(st.integers(3, 5))
                ids = draw(st.lists(st.integers(1, 5000), min_size=nsets, max_size=nsets, unique=True))
                pos = 0
                for _ in range(draw(st.integers(6, 16))):
                    pos += draw(st.integers(1, 300))
                    sid = draw(st.sampled_from(ids))
                    gt = draw(st.sampled_from(["0|1", "1|0"]))
                    records.append({"chrom": "chr%d" % (ci + 1), "pos": pos, "id": None, "ref": "A", "alts": ["C"], "qual": None, "filter": [],
                                    "info": [], "format": ["GT", "PS"], "calls": [{"GT": gt, "PS": str(sid)}]})
                    truth.append([{"alleles": tuple(int(x) for x in gt.split("|")), "phased": True, "set": sid, "enc": "PS", "ploidy": 2,
                                   "gt_phased_flag": True}])
            model = {"contigs": [["chr%d" % (ci + 1), 100000] for ci in range(nchrom)], "samples": ["s0"], "info_defs": [],
                     "format_defs": [["GT", "1", "String"], ["PS", "1", "Integer"]], "filters": [], "records": records, "enc": ["PS"]}
            opts = {"sample": None, "only_snvs": draw(st.integers(0, 5)) == 0, "chromosomes": None, "gtf": draw(st.booleans()),
                    "indexed": draw(st.integers(0, 3)) == 0}
            return {"model": model, "truth": truth, "opts": opts}
        return case()


PARTS = [StatsPart(), InterleavedPart()]
