"""C18 - priority queue and component finder match their abstract models on all histories.

Stateful (rule-based) Hypothesis machines whose rules funnel through one interpreter
(`apply`), so a shrunk history is plain data {"ops": [...]} and replays without Hypothesis.
Oracles: a dict item->score for the queue (Python tuple order = the documented lexicographic
order), naive relabelling for the component finder.
"""
import itertools
from hypothesis import strategies as st
from hypothesis.stateful import RuleBasedStateMachine, rule, precondition, invariant

from whatshap.priorityqueue import PriorityQueue
from whatshap.graph import ComponentFinder

ID = "C18"
RULE = ("PriorityQueue: rule-based histories (push of an absent item, pop of a non-empty queue, change_score of a "
        "queued item, lookups) over items 0-11 and scores that are ints in -3..3 or int tuples of length 1-3, compared "
        "after every step with a dict model; non-trivial = history containing a change_score of an entry that is not "
        "the current maximum followed later by a pop. ComponentFinder: merge/find histories over 6-10 values of one "
        "type (ints, strings or tuples) against naive relabelling; non-trivial = a merge joining two components that "
        "both already have >= 2 members. Distinct = distinct operation list. Exhaustive part: every valid operation "
        "sequence up to the stated depth over 3 items x 3 scores.")
ASSUMPTIONS = [
    "push of an already queued item, change_score of an absent item and pop on an empty queue are outside the domain "
    "(callers guard with get_score_by_item; documented in DESIGN C18)",
    "merge(x, y) is only called with x != y (asserted by the code) and with values given to the constructor",
]

ITEMS = list(range(12))


def norm(score):
    """model representation of a score: tuple of ints"""
    return (score,) if isinstance(score, int) else tuple(score)


def shown(t):
    """what the queue reports for a stored score"""
    return t[0] if len(t) == 1 else tuple(t)


def py(score):
    return score if isinstance(score, int) else tuple(score)


# ------------------------------------------------------------------ priority queue

class PQState:
    def __init__(self):
        self.real = PriorityQueue()
        self.model = {}
        self.changed_nonroot = False
        self.nt = False


class PQPart:
    name = "pq"
    budget = {"quick": 3200, "thorough": 100000}
    steps = 60
    guard = False

    def new_state(self):
        return PQState()

    def apply(self, s, op, ctx):
        kind = op[0]
        if kind == "set":
            kind = "change" if op[1] in s.model else "push"
        if kind == "push":
            _, item, score = op
            if item in s.model:
                return
            s.real.push(py(score), item)
            s.model[item] = norm(score)
            ctx.label("push")
        elif kind == "change":
            _, item, score = op
            if item not in s.model:
                return
            top = max(s.model.values())
            if s.model[item] != top:
                s.changed_nonroot = True
                ctx.label("change-nonmax")
            else:
                ctx.label("change-max")
            if norm(score) > s.model[item]:
                ctx.label("change-increase")
            elif norm(score) < s.model[item]:
                ctx.label("change-decrease")
            else:
                ctx.label("change-equal")
            s.real.change_score(item, py(score))
            s.model[item] = norm(score)
        elif kind == "pop":
            if not s.model:
                return
            ctx.label("pop")
            if s.changed_nonroot:
                s.nt = True
            score, item = s.real.pop()
            top = max(s.model.values())
            if list(s.model.values()).count(top) > 1:
                ctx.label("pop-with-tie")
            if item not in s.model:
                ctx.violation("pq:pop-unknown-item", "pop returned %r, model %r" % ((score, item), s.model))
                return
            if shown(s.model[item]) != score:
                ctx.violation("pq:pop-stale-score", "pop returned %r, last assigned %r" % ((score, item), s.model[item]))
            if s.model[item] != top:
                ctx.violation("pq:pop-not-max", "pop returned %r but max score is %r; model %r" % ((score, item), top, s.model))
            del s.model[item]
        elif kind == "get":
            pass  # lookups of every item happen in check()
        else:
            raise ValueError(op)
        self.check(s, ctx)

    def check(self, s, ctx):
        if len(s.real) != len(s.model):
            ctx.violation("pq:len", "len %d, model %d" % (len(s.real), len(s.model)))
        if s.real.is_empty() != (not s.model):
            ctx.violation("pq:is_empty", "is_empty %r, model %r" % (s.real.is_empty(), s.model))
        for item in ITEMS + [99]:
            got = s.real.get_score_by_item(item)
            want = shown(s.model[item]) if item in s.model else None
            if got != want:
                ctx.violation("pq:lookup", "get_score_by_item(%d) = %r, model %r" % (item, got, want))

    def finish(self, s, ctx):
        # drain: non-increasing scores, exactly the queued items
        prev = None
        seen = {}
        guard = len(s.model) + 3
        while not s.real.is_empty() and guard > 0:
            guard -= 1
            score, item = s.real.pop()
            t = norm(score)
            if prev is not None and t > prev:
                ctx.violation("pq:drain-order", "drain returned %r after %r" % (t, prev))
            prev = t
            if item in seen:
                ctx.violation("pq:drain-duplicate", "item %d drained twice" % item)
            seen[item] = t
        if seen != s.model:
            ctx.violation("pq:drain-content", "drained %r, model %r" % (seen, s.model))
        ctx.nontrivial(s.nt)

    def run(self, case, ctx):
        s = self.new_state()
        for op in case["ops"]:
            self.apply(s, op, ctx)
        self.finish(s, ctx)

    def machine(self, tier):
        scalar = st.integers(-3, 3)
        score = st.one_of(scalar, st.lists(st.integers(-2, 2), min_size=1, max_size=3))

        wide = st.one_of(st.integers(-20, 20), st.lists(st.integers(-3, 3), min_size=1, max_size=3))

        class PQMachine(RuleBasedStateMachine):
            @precondition(lambda self: len(self.state.model) < len(ITEMS))
            @rule(data=st.data(), score=score)
            def push(self, data, score):
                item = data.draw(st.sampled_from([i for i in ITEMS if i not in self.state.model]))
                self.step(["push", item, score])

            @precondition(lambda self: len(self.state.model) < len(ITEMS) - 3)
            @rule(data=st.data())
            def fill(self, data):
                # several pushes in a row so that heaps of depth >= 3 are common
                free = [i for i in ITEMS if i not in self.state.model]
                k = data.draw(st.integers(2, min(6, len(free))))
                for item in free[:k]:
                    self.step(["push", item, data.draw(wide)])

            @precondition(lambda self: len(self.state.model) >= 4)
            @rule(data=st.data())
            def pop_many(self, data):
                for _ in range(data.draw(st.integers(2, 4))):
                    if self.state.model:
                        self.step(["pop"])

            @precondition(lambda self: self.state.model)
            @rule()
            def pop(self):
                self.step(["pop"])

            @precondition(lambda self: self.state.model)
            @rule(data=st.data(), score=score)
            def change(self, data, score):
                item = data.draw(st.sampled_from(sorted(self.state.model)))
                self.step(["change", item, score])

        return PQMachine


class PQExhaustive:
    """every operation sequence of length d over the alphabet {set(item, score)} x 4 items x 3 scores + pop,
    where set = push if the item is absent, change_score if it is queued (pop on empty is skipped)"""
    name = "pq-exhaustive"
    budget = {"quick": 1, "thorough": 1}
    depth = {"quick": 5, "thorough": 6}
    guard = False
    SCORES = [0, 1, [0, 1]]

    def enumerate(self, tier):
        alphabet = [["set", it, sc] for it in (0, 1, 2, 3) for sc in self.SCORES] + [["pop"]]
        d = self.depth[tier]
        for seq in itertools.product(alphabet, repeat=d):
            yield {"ops": list(seq)}

    def run(self, case, ctx):
        PARTS[0].run(case, ctx)


class PQPermutations:
    """push n entries with every ordering of n distinct scores (and every ordering with one tie), optionally change one
    score, then drain: exhaustive for n <= 7 (quick) / 8 (thorough); reaches sift-down paths of depth 3"""
    name = "pq-permutations"
    budget = {"quick": 1, "thorough": 1}
    bound = {"quick": 7, "thorough": 8}

    def enumerate(self, tier):
        N = self.bound[tier]
        for n in range(2, N + 1):
            for perm in itertools.permutations(range(n)):
                ops = [["push", i, perm[i]] for i in range(n)]
                yield {"ops": ops + [["pop"]] * n}
                if n <= 6:
                    # one score change before draining: every item, to the extremes and to a tie
                    for item in range(n):
                        for new in (-1, n, perm[(item + 1) % n]):
                            yield {"ops": ops + [["change", item, new]] + [["pop"]] * n}
                # a tie: two entries share a score
                if n <= 7 and perm[0] < n - 1:
                    tied = [["push", i, min(perm[i], n - 2)] for i in range(n)]
                    yield {"ops": tied + [["pop"]] * n}

    def run(self, case, ctx):
        PARTS[0].run(case, ctx)


# ------------------------------------------------------------------ component finder

DOMAINS = {
    "int": list(range(10)),
    "str": ["a", "ab", "b", "ba", "c", "ca", "d", "", "zz", "B"],
    "tuple": [[0, 0], [0, 1], [1, 0], [1, 1], [0, 2], [2, 0], [1, 2], [2, 2]],
}


def val(v):
    return tuple(v) if isinstance(v, list) else v


class CFState:
    def __init__(self):
        self.real = None
        self.values = None
        self.label = None  # model: value -> component id
        self.nt = False


class CFPart:
    name = "cf"
    budget = {"quick": 3200, "thorough": 100000}
    steps = 40
    guard = False

    def new_state(self):
        return CFState()

    def apply(self, s, op, ctx):
        kind = op[0]
        if kind == "init":
            vals = [val(v) for v in op[1]]
            s.values = vals
            s.real = ComponentFinder(vals)
            s.label = {v: i for i, v in enumerate(vals)}
            ctx.label("domain-" + type(vals[0]).__name__)
        elif kind == "merge":
            if s.real is None:
                return
            x, y = val(op[1]), val(op[2])
            if x == y or x not in s.label or y not in s.label:
                return
            lx, ly = s.label[x], s.label[y]
            if lx != ly:
                nx = sum(1 for v in s.label.values() if v == lx)
                ny = sum(1 for v in s.label.values() if v == ly)
                if nx >= 2 and ny >= 2:
                    s.nt = True
                    ctx.label("merge-two-nonsingletons")
                else:
                    ctx.label("merge-other")
            else:
                ctx.label("merge-same-component")
            s.real.merge(x, y)
            for v in s.label:
                if s.label[v] == ly:
                    s.label[v] = lx
        else:
            raise ValueError(op)
        self.check(s, ctx)

    def check(self, s, ctx):
        if s.real is None:
            return
        reps = {}
        for v in s.values:
            comp = [w for w in s.values if s.label[w] == s.label[v]]
            want = min(comp)
            got = s.real.find(v)
            reps[v] = got
            if got != want:
                ctx.violation("cf:representative", "find(%r) = %r, minimum of component %r is %r" % (v, got, comp, want))
        for a, b in itertools.combinations(s.values, 2):
            if (reps[a] == reps[b]) != (s.label[a] == s.label[b]):
                ctx.violation("cf:connectivity", "find(%r)==find(%r) is %r but connected is %r" % (
                    a, b, reps[a] == reps[b], s.label[a] == s.label[b]))

    def finish(self, s, ctx):
        ctx.nontrivial(s.nt)

    def run(self, case, ctx):
        s = self.new_state()
        for op in case["ops"]:
            self.apply(s, op, ctx)
        self.finish(s, ctx)

    def machine(self, tier):
        class CFMachine(RuleBasedStateMachine):
            @precondition(lambda self: self.state.real is None)
            @rule(data=st.data())
            def init(self, data):
                dom = DOMAINS[data.draw(st.sampled_from(sorted(DOMAINS)))]
                vals = data.draw(st.lists(st.sampled_from(dom), min_size=3, max_size=len(dom), unique_by=lambda v: repr(v)))
                self.step(["init", vals])

            @precondition(lambda self: self.state.real is not None)
            @rule(data=st.data())
            def merge(self, data):
                vals = self.state.values
                i = data.draw(st.integers(0, len(vals) - 1))
                j = data.draw(st.integers(0, len(vals) - 2))
                if j >= i:
                    j += 1
                enc = lambda v: list(v) if isinstance(v, tuple) else v
                self.step(["merge", enc(vals[i]), enc(vals[j])])

        return CFMachine


class CFExhaustive:
    """every merge sequence of the stated length over 5 integer values"""
    name = "cf-exhaustive"
    budget = {"quick": 1, "thorough": 1}
    depth = {"quick": 4, "thorough": 5}
    guard = False

    def enumerate(self, tier):
        vals = [3, 1, 4, 0, 2]
        pairs = [(a, b) for a in vals for b in vals if a != b]
        for d in range(1, self.depth[tier] + 1):
            for seq in itertools.product(pairs, repeat=d):
                yield {"ops": [["init", vals]] + [["merge", a, b] for a, b in seq]}

    def run(self, case, ctx):
        PARTS[2].run(case, ctx)


PARTS = [PQPart(), PQExhaustive(), CFPart(), CFExhaustive(), PQPermutations()]
