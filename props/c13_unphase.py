"""C13 - unphase accepts every VCF, removes all phase information and nothing else."""
import os
from hypothesis import strategies as st

from vlib import vcfmodel as vm
from whatshap.cli.unphase import run_unphase

ID = "C13"
RULE = ("Generated VCF models: 1-3 samples, 1-3 contigs, 1-12 records, ploidy 1-6 chosen per call, genotypes het / hom / "
        "missing ('.', './.') / partially missing ('0/.', '0|1|.'), records without GT, multi-ALT, symbolic and ALT-less "
        "records, duplicate positions, per-sample phase encoding PS (Integer or String typed) / HP / none with PQ, "
        "stale PS values, arbitrary other INFO/FORMAT fields. Oracle: run_unphase succeeds; output has no phased GT and no "
        "HP/PS/PQ key in records or header; every other field and every GT allele multiset equals the input (htslib "
        "parse of both); unphase(unphase(x)) == unphase(x) record for record; unphase(phase(x)) and unphase(polyphase(x)) "
        "(ploidy 2-6, genotypes returned in haplotype order) equal unphase(x) record for record. Non-trivial = file with a non-diploid or "
        "partially missing call or a GT-less record, and at least one phase statement. Distinct = distinct model.")
ASSUMPTIONS = [
    "well-formed = complete header (every contig, INFO, FORMAT, FILTER defined), positions sorted per contig",
    "float values are compared after rounding to 5 significant digits (htslib re-serialises floats)",
]
PHASE_TAGS = ("HP", "PS", "PQ")


def unphase_checks(inp, out, ctx, tag=""):
    ha, a = vm.read_vcf(inp)
    hb, b = vm.read_vcf(out)
    for kind, msg in vm.diff_headers(ha, hb, removed_formats=PHASE_TAGS):
        ctx.violation("unphase:" + kind, msg)
    for t in PHASE_TAGS:
        if t in hb["formats"]:
            ctx.violation("unphase:header-keeps-" + t, "FORMAT %s still defined in output header" % t)
    for kind, msg in vm.diff_records(a, b, ignore_format=PHASE_TAGS, compare_gt="multiset"):
        ctx.violation("unphase:" + kind, msg)
    for i, y in enumerate(b):
        for t in PHASE_TAGS:
            if t in y["format_keys"]:
                ctx.violation("unphase:record-keeps-" + t, "record %d (%s:%d) still has FORMAT key %s" % (i, y["chrom"], y["pos"], t))
        for s, c in y["samples"].items():
            if c["phased"] and c["GT"] is not None and len(c["GT"]) > 1:
                ctx.violation("unphase:still-phased", "record %d (%s:%d) sample %s GT %r still phased" % (i, y["chrom"], y["pos"], s, c["GT"]))
            for t in PHASE_TAGS:
                if t in c["fmt"]:
                    ctx.violation("unphase:value-keeps-" + t, "record %d sample %s keeps %s=%r" % (i, s, t, c["fmt"][t]))
    # raw text: htslib reports a genotype with mixed separators ('1|0/1') as unphased, so look at the text as well
    with open(out) as f:
        for line in f:
            if line.startswith("#"):
                continue
            cols = line.rstrip("\n").split("\t")
            if len(cols) > 9 and cols[8].split(":")[0] == "GT":
                for s_idx, col in enumerate(cols[9:]):
                    if "|" in col.split(":")[0]:
                        ctx.violation("unphase:still-phased", "%s:%s sample %d GT %r still contains a phase separator" % (cols[0], cols[1], s_idx, col.split(":")[0]))
    return a, b


class UnphasePart:
    name = "unphase"
    budget = {"quick": 3200, "thorough": 64000}

    def strategy(self, tier):
        @st.composite
        def case(draw):
            ps_type = draw(st.sampled_from(["Integer", "Integer", "String"]))
            model, truth = vm.gen_vcf(
                draw, ploidy_choices=(1, 2, 2, 2, 3, 4, 6), per_call_ploidy=True, no_gt_records=True, symbolic=True,
                no_alt=True, phasing=("none", "PS", "HP"), ps_type=ps_type, hom_phased=True, stale_ps=True,
                mixed_separators=True, unsorted_gt=True)
            return {"model": model, "truth": truth}
        return case()

    def classify(self, case, ctx):
        nondip = partial = nogt = phased = False
        for r, rec in zip(case["truth"], case["model"]["records"]):
            if "GT" not in rec["format"]:
                nogt = True
            for t in r:
                if t["alleles"] is not None:
                    if len(t["alleles"]) != 2:
                        nondip = True
                    if any(a is None for a in t["alleles"]) and any(a is not None for a in t["alleles"]):
                        partial = True
                if t["phased"]:
                    phased = True
        for name, flag in (("non-diploid-call", nondip), ("partial-missing-call", partial), ("record-without-GT", nogt), ("phase-present", phased)):
            if flag:
                ctx.label(name)
        ctx.nontrivial((nondip or partial or nogt) and phased)
        return nondip, partial, nogt

    def run(self, case, ctx):
        d = ctx.tmp()
        inp = vm.write_vcf(case["model"], os.path.join(d, "in.vcf"))
        self.classify(case, ctx)
        out1 = os.path.join(d, "out1.vcf")
        run_unphase(inp, out1)
        a, b = unphase_checks(inp, out1, ctx)
        out2 = os.path.join(d, "out2.vcf")
        run_unphase(out1, out2)
        _, c = vm.read_vcf(out2)
        for kind, msg in vm.diff_records(b, c, ignore_format=(), compare_gt="exact"):
            ctx.violation("unphase:not-idempotent:" + kind, msg)


class AfterPhasePart:
    """unphase(phase(x)) gives the same records as unphase(x), for both tags"""
    name = "after-phase"
    budget = {"quick": 480, "thorough": 10000}

    def strategy(self, tier):
        from vlib import pipeline as P

        @st.composite
        def case(draw):
            c = P.gen_case(draw, nsamples=(1, 2), depth=(1, 6), paired_share=15, clip_share=0, eqx_share=0, ncontigs=(1, 2), length=(300, 700))
            c["tag"] = draw(st.sampled_from(["PS", "HP"]))
            c["twice"] = draw(st.booleans())
            return c
        return case()

    def run(self, case, ctx):
        from vlib import pipeline as P
        d = ctx.tmp()
        # unphased genotypes are written in descending order for every second variant ('1/0')
        gts = {s: {c["name"]: ["/".join(map(str, sorted((h[vi] for h in case["haps"][s][c["name"]]), reverse=(vi % 2 == 0))))
                               for vi in range(len(case["variants"][c["name"]]))] for c in case["contigs"]} for s in case["samples"]}
        paths, reads = P.materialise(case, d, vcf_kwargs={"gts": gts})
        if "bam" not in paths:
            return
        out, _ = P.run_phase(d, paths["vcf"], [paths["bam"]], reference=paths["ref"], tag=case["tag"], trace=False)
        if case["twice"]:
            other = "HP" if case["tag"] == "PS" else "PS"
            out, _ = P.run_phase(d, out, [paths["bam"]], reference=paths["ref"], tag=other, out_name="out2.vcf", trace=False)
        u1 = os.path.join(d, "u_phased.vcf")
        u0 = os.path.join(d, "u_orig.vcf")
        run_unphase(out, u1)
        run_unphase(paths["vcf"], u0)
        unphase_checks(out, u1, ctx)
        _, a = vm.read_vcf(u0)
        _, b = vm.read_vcf(u1)
        for kind, msg in vm.diff_records(a, b, ignore_format=(), compare_gt="exact"):
            ctx.violation("unphase:after-phase:" + kind, msg)
        _, ph = vm.read_vcf(out)
        ctx.nontrivial(any(c["phased"] or "HP" in c["fmt"] for r in ph for c in r["samples"].values()))
        ctx.label("tag-" + case["tag"] + ("-then-other" if case["twice"] else ""))


class AfterPolyphasePart:
    """unphase(polyphase(x)) gives the same records as unphase(x): polyploid genotypes come back in haplotype order
    (e.g. 0|1|1|0), with PS or the polyploid HP encoding"""
    name = "after-polyphase"
    budget = {"quick": 480, "thorough": 8000}

    def strategy(self, tier):
        from props.c15_polyphase import gen

        @st.composite
        def case(draw):
            c = gen(draw)
            c["descending"] = draw(st.booleans())
            return c
        return case()

    def run(self, case, ctx):
        import io, contextlib
        from vlib import genome as G, pipeline as P
        from props.c15_polyphase import apply_errors
        from whatshap.cli.polyphase import run_polyphase
        d = ctx.tmp()
        ploidy = case["ploidy"]
        variants = case["variants"]["chr1"]
        haps = case["haps"]["s"]["chr1"]
        reads = apply_errors(case, G.render_specs(case, case["read_specs"]))
        if not reads:
            return
        ref = G.write_fasta(case["contigs"], os.path.join(d, "ref.fa"))
        gts = {"s": {"chr1": ["/".join(map(str, sorted((h[vi] for h in haps), reverse=(case["descending"] and vi % 2 == 0))))
                              for vi in range(len(variants))]}}
        vcf = G.write_vcf(case, os.path.join(d, "in.vcf"), gts=gts)
        bam = G.write_bam(case, reads, os.path.join(d, "reads.bam"))
        out = os.path.join(d, "out.vcf")
        buf = io.StringIO()
        with contextlib.redirect_stdout(buf), contextlib.redirect_stderr(buf):
            with open(out, "w") as fo:
                run_polyphase([bam], vcf, ploidy, reference=ref, output=fo, block_cut_sensitivity=case["opts"]["B"], threads=1,
                              write_command_line_header=False, tag=case.get("tag", "PS"))
        P.check_readable(out, "polyphase")
        u1 = os.path.join(d, "u_phased.vcf")
        u0 = os.path.join(d, "u_orig.vcf")
        run_unphase(out, u1)
        run_unphase(vcf, u0)
        unphase_checks(out, u1, ctx)
        _, a = vm.read_vcf(u0)
        _, b = vm.read_vcf(u1)
        for kind, msg in vm.diff_records(a, b, ignore_format=(), compare_gt="exact"):
            ctx.violation("unphase:after-polyphase:" + kind, msg)
        _, ph = vm.read_vcf(out)
        nt = False
        for r in ph:
            for c in r["samples"].values():
                if c["phased"] and c["GT"] is not None:
                    if list(c["GT"]) != sorted(c["GT"]):
                        nt = True
                    if len(c["GT"]) > 2 and c["GT"][0] == c["GT"][-1] and len(set(c["GT"])) > 1:
                        ctx.label("phased-gt-with-equal-first-and-last-allele")
        ctx.nontrivial(nt)
        ctx.label("ploidy-%d" % ploidy)
        ctx.label("tag-" + case.get("tag", "PS"))


PARTS = [UnphasePart(), AfterPhasePart(), AfterPolyphasePart()]
