"""C16 - results depend on the input only: not on hash seed, thread count or repetition.

Real subprocesses (`python -m whatshap ...` on the freshly built tree) with different PYTHONHASHSEED values,
--threads / --output-threads settings and plain repetition; outputs must be identical apart from the recorded
command line.
"""
import gzip, os, subprocess, sys
from hypothesis import strategies as st
import pysam

from vlib import genome as G, pipeline as P, vcfmodel as vm

ID = "C16"
RULE = ("Small generated cases for every subcommand that writes a VCF, BAM or TSV, biased toward ambiguity (conflicting "
        "equal-weight reads, read-free pedigree variants, reads or read clouds spanning several phase sets with equal scores, "
        "polyploid clusters of identical reads): phase (single samples, trios and quartets with --ped, with and without --use-ped-samples and an unrelated "
        "extra individual in the same files, all list outputs), genotype (with and without --ped, --no-priors, --gt-qual-threshold, --use-ped-samples), polyphase (--threads 1/2/4, one or two samples, --use-prephasing with one pre-phased and one unphased sample), haplotag (--output-threads 1/4, BX "
        "clouds, --regions over several contigs), haplotagphase, stats, compare, split, unphase and find_snv_candidates. Each case is executed 3-4 times as a real subprocess "
        "with PYTHONHASHSEED in {0, 1, 2, 12345} and different thread settings; all output files (without the ##commandline "
        "/ @PG CL lines) must be identical to those of the first execution. Non-trivial = the harness built a tie into the "
        "case (noisy reads, read-free forced or ambiguous pedigree sites, multi-set clouds) or varied the thread count. "
        "evaluations = cases; units = subprocess executions. Distinct = distinct generated case.")
ASSUMPTIONS = [
    "the operating system's scheduling of multiprocessing workers is sampled, not controlled",
    "outputs are compared after removing the recorded command line (VCF ##commandline, BAM @PG) and the ##fileDate line of find_snv_candidates",
]

PY = os.environ.get("VERIF_PYTHON", "/venv/bin/python")
SEEDS = ["0", "1", "2", "12345"]


def cli(args, seed, cwd):
    env = dict(os.environ)
    env["PYTHONHASHSEED"] = seed
    env.pop("WHATSHAP_VERIF_TRACE", None)
    p = subprocess.run([PY, "-m", "whatshap"] + args, cwd=cwd, env=env, stdout=subprocess.PIPE, stderr=subprocess.PIPE)
    return p


def norm_file(path):
    if not os.path.exists(path):
        return None
    if path.endswith(".bam"):
        out = []
        with pysam.AlignmentFile(path, check_sq=False) as f:
            hdr = f.header.to_dict()
            hdr.pop("PG", None)
            out.append(repr(sorted(hdr.items())))
            for a in f.fetch(until_eof=True):
                out.append(a.to_string())
        return "\n".join(out)
    op = gzip.open if path.endswith(".gz") else open
    with op(path, "rt", errors="replace") as f:
        # the recorded command line and (find_snv_candidates) the date of the run are not results
        return "".join(l for l in f if not l.startswith(("##commandline", "##fileDate")))


def noisy_reads(case, reads, rate_seed):
    """substitution errors at SNV sites -> conflicting reads of equal weight"""
    import random
    rng = random.Random(rate_seed)
    for r in reads:
        if any(op in r["cigar"] for op in "NIDS"):
            continue
        seq = list(r["seq"])
        for v in case["variants"][r["chrom"]]:
            if G.vtype(v) == "snv" and r["pos"] <= v["pos"] < r["pos"] + len(seq) and rng.random() < 0.25:
                seq[v["pos"] - r["pos"]] = rng.choice([v["ref"], v["alt"]])
        r["seq"] = "".join(seq)
    return reads


class Base:
    budget = {"quick": 16, "thorough": 200}
    min_per_shard = 1
    nruns = 3

    def strategy(self, tier):
        part = self

        @st.composite
        def case(draw):
            c = part.gen(draw)
            c["seeds"] = draw(st.permutations(SEEDS))[:part.nruns]
            return c
        return case()

    def variants_of_run(self, case, k):
        return []

    def run(self, case, ctx):
        d = ctx.tmp()
        prep = self.prepare(case, d)
        if prep is None:
            return
        base_args, outputs = prep
        first = None
        for k, seed in enumerate(case["seeds"]):
            rd = os.path.join(d, "run%d" % k)
            os.makedirs(rd, exist_ok=True)
            args = [a.replace("{out}", rd) for a in base_args] + self.variants_of_run(case, k)
            p = cli(args, seed, d)
            ctx.unit("subprocess-executions")
            if p.returncode != 0:
                ctx.violation("%s:nonzero-exit" % self.name, "whatshap %s exited with %d (PYTHONHASHSEED=%s): %s" % (
                    " ".join(args)[:300], p.returncode, seed, p.stderr.decode(errors="replace")[-600:]))
                return
            res = {o: norm_file(os.path.join(rd, o)) for o in outputs}
            if "stdout" in outputs:
                res["stdout"] = "".join(l + "\n" for l in p.stdout.decode(errors="replace").splitlines() if not l.startswith("##commandline"))
            if first is None:
                first = res
                for o, v in res.items():
                    if v is None:
                        ctx.violation("%s:missing-output" % self.name, "output %s was not written" % o)
            else:
                for o in outputs:
                    if res[o] != first[o]:
                        a, b = (first[o] or "").splitlines(), (res[o] or "").splitlines()
                        diff = next(((x, y) for x, y in zip(a, b) if x != y), (len(a), len(b)))
                        ctx.violation("%s:output-differs" % self.name, "output %s differs between PYTHONHASHSEED=%s %r and PYTHONHASHSEED=%s %r: first differing line %r vs %r" % (
                            o, case["seeds"][0], self.variants_of_run(case, 0), seed, self.variants_of_run(case, k), diff[0], diff[1]))
        ctx.nontrivial(True)


class PhasePart(Base):
    name = "phase"
    budget = {"quick": 32, "thorough": 400}

    def gen(self, draw):
        c = P.gen_case(draw, nsamples=(1, 2), ncontigs=(1, 2), length=(300, 700), depth=(2, 8), read_len=(60, 250), paired_share=20,
                       clip_share=0, eqx_share=0, kinds=("snv", "snv", "snv", "ins", "del"))
        c["noise"] = draw(st.integers(0, 10 ** 6))
        c["tag"] = draw(st.sampled_from(["PS", "HP"]))
        c["distrust"] = draw(st.integers(0, 3)) == 0
        return c

    def prepare(self, case, d):
        reads = noisy_reads(case, G.render_specs(case, case["read_specs"]), case["noise"])
        if not reads:
            return None
        ref = G.write_fasta(case["contigs"], os.path.join(d, "ref.fa"))
        vcf = G.write_vcf(case, os.path.join(d, "in.vcf"))
        bam = G.write_bam(case, reads, os.path.join(d, "reads.bam"))
        args = ["phase", "-o", "{out}/out.vcf", "--reference", ref, "--tag", case["tag"], "--output-read-list", "{out}/reads.tsv",
                "--changed-genotype-list", "{out}/gt.tsv"] + (["--distrust-genotypes"] if case["distrust"] else []) + [vcf, bam]
        return args, ["out.vcf", "reads.tsv", "gt.tsv"]


class PedPhasePart(Base):
    name = "phase-ped"
    budget = {"quick": 32, "thorough": 400}
    nruns = 4

    def gen(self, draw):
        from props.c05_pedigree import gen as gen_ped
        c = gen_ped(draw)
        c["noise"] = draw(st.integers(0, 10 ** 6))
        c["use_ped_samples"] = draw(st.booleans())
        # an unrelated individual in the same VCF/BAM: a second family whose name sorts before, between or after the pedigree's
        c["extra"] = draw(st.sampled_from([None, "adam", "dora", "gina", "zoe"]))
        c["extra_column"] = draw(st.integers(0, 4))
        return c

    def prepare(self, case, d):
        name = case["contigs"][0]["name"]
        children = case["samples"][2:]
        if case.get("extra"):
            x = case["extra"]
            case = dict(case)
            col = min(case["extra_column"], len(case["samples"]))
            case["samples"] = case["samples"][:col] + [x] + case["samples"][col:]
            case["haps"] = dict(case["haps"], **{x: case["haps"]["mother"]})
            case["gts"] = dict(case["gts"], **{x: case["gts"]["mother"]})
            case["read_specs"] = case["read_specs"] + [dict(sp, sample=x, name=sp["name"] + "_x") for sp in case["read_specs"] if sp["sample"] == "mother"]
        reads = noisy_reads(case, G.render_specs(case, case["read_specs"]), case["noise"])
        ref = G.write_fasta(case["contigs"], os.path.join(d, "ref.fa"))
        vcf = G.write_vcf(case, os.path.join(d, "in.vcf"), gts=case["gts"])
        ped = G.write_ped([["father", "mother", ch] for ch in case.get("ped_order", children)], os.path.join(d, "fam.ped"), founders=case.get("ped_founders"))
        inputs = [G.write_bam(case, reads, os.path.join(d, "reads.bam"))] if reads else []
        args = ["phase", "-o", "{out}/out.vcf", "--reference", ref, "--ped", ped, "--recombination-list", "{out}/recomb.tsv",
                "--output-read-list", "{out}/reads.tsv"] + (["--use-ped-samples"] if case["use_ped_samples"] else []) + [vcf] + inputs
        return args, ["out.vcf", "recomb.tsv", "reads.tsv"]


class GenotypePart(Base):
    name = "genotype"

    def gen(self, draw):
        from props.c03_components import gen_trio_case
        ped = draw(st.booleans())
        if ped:
            c = gen_trio_case(draw, depth=(1, 5), read_len=(60, 250), paired_share=10, clip_share=0, eqx_share=0, ncontigs=(1, 1), length=(300, 600),
                              kinds=("snv",))
        else:
            c = P.gen_case(draw, nsamples=(1, 3), ncontigs=(1, 2), length=(300, 600), depth=(1, 6), read_len=(60, 250), paired_share=10,
                           clip_share=0, eqx_share=0, kinds=("snv", "snv", "ins"))
        c["ped"] = ped
        c["noise"] = draw(st.integers(0, 10 ** 6))
        c["gopts"] = {"nopriors": draw(st.booleans()), "threshold": draw(st.sampled_from([None, None, 0, 3, 20])),
                      "use_ped_samples": ped and draw(st.booleans())}
        return c

    def prepare(self, case, d):
        reads = noisy_reads(case, G.render_specs(case, case["read_specs"]), case["noise"])
        if not reads:
            return None
        ref = G.write_fasta(case["contigs"], os.path.join(d, "ref.fa"))
        vcf = G.write_vcf(case, os.path.join(d, "in.vcf"))
        bam = G.write_bam(case, reads, os.path.join(d, "reads.bam"))
        args = ["genotype", "-o", "{out}/out.vcf", "--reference", ref]
        if case["ped"]:
            args += ["--ped", G.write_ped([["father", "mother", "child"]], os.path.join(d, "fam.ped"))]
        o = case.get("gopts", {})
        if o.get("nopriors"):
            args.append("--no-priors")
        if o.get("threshold") is not None:
            args += ["--gt-qual-threshold", str(o["threshold"])]
        if o.get("use_ped_samples"):
            args.append("--use-ped-samples")
        return args + [vcf, bam], ["out.vcf"]


class PolyphasePart(Base):
    name = "polyphase"
    budget = {"quick": 32, "thorough": 400}
    nruns = 4
    THREADS = ["1", "2", "4", "3"]

    def gen(self, draw):
        from props.c15_polyphase import gen as gen_poly
        c = gen_poly(draw)
        c["two_samples"] = draw(st.booleans())
        # --use-prephasing with a pre-phased first sample (the second sample, if any, stays unphased)
        c["prephase16"] = draw(st.booleans()) and c["ploidy"] <= 5   # the pre-phasing ILP needs minutes at ploidy 6
        return c

    def variants_of_run(self, case, k):
        return ["--threads", self.THREADS[k % 4]]

    def prepare(self, case, d):
        from props.c15_polyphase import apply_errors
        reads = apply_errors(case, G.render_specs(case, case["read_specs"]))
        if not reads:
            return None
        if case["two_samples"]:
            case = dict(case)
            case["samples"] = ["s", "t"]
            case["haps"] = {"s": case["haps"]["s"], "t": case["haps"]["s"]}
            reads = reads + [dict(r, sample="t", name=r["name"] + "_t") for r in reads[::2]]
        ref = G.write_fasta(case["contigs"], os.path.join(d, "ref.fa"))
        phased = None
        if case.get("prephase16"):
            haps = case["haps"]["s"]["chr1"]
            het = [vi for vi in range(len(case["variants"]["chr1"])) if len({h[vi] for h in haps}) > 1]
            if len(het) >= 2:
                phased = {"s": {"chr1": {vi: case["variants"]["chr1"][het[0]]["pos"] + 1 for vi in het[::2]}}}
        vcf = G.write_vcf(case, os.path.join(d, "in.vcf"), phased=phased)
        bam = G.write_bam(case, reads, os.path.join(d, "reads.bam"))
        args = ["polyphase", "-o", "{out}/out.vcf", "--reference", ref, "--ploidy", str(case["ploidy"]), "-B", str(case["opts"]["B"])]
        if phased:
            args.append("--use-prephasing")
        return args + [vcf, bam], ["out.vcf"]


class HaplotagPart(Base):
    name = "haplotag"
    budget = {"quick": 32, "thorough": 400}
    nruns = 4

    def gen(self, draw):
        from props.c10_haplotag import gen_errorfree
        c = gen_errorfree(draw)
        # big clouds that span several phase sets
        for sp in c["read_specs"]:
            if draw(st.integers(0, 1)) == 0:
                sp["bx"] = "BX_%d_%s" % (draw(st.integers(0, 1)), sp["sample"])
        c["opts"]["ignore_linked_read"] = False
        # --regions naming the contigs in an order of their own (whole contigs and intervals)
        names = [x["name"] for x in c["contigs"]]
        c["opts"]["regions"] = None
        if draw(st.booleans()):
            regs = []
            for name in draw(st.permutations(names)):
                L = len(next(x for x in c["contigs"] if x["name"] == name)["seq"])
                if draw(st.booleans()):
                    regs.append(name)
                else:
                    a = draw(st.integers(1, L // 2))
                    regs.append("%s:%d-%d" % (name, a, min(L, a + draw(st.integers(50, 400)))))
            c["opts"]["regions"] = regs
        return c

    def variants_of_run(self, case, k):
        return ["--output-threads", ["1", "4", "2", "1"][k % 4]]

    def prepare(self, case, d):
        from props.c10_haplotag import write_phased_vcf, build_bam
        if not case["read_specs"]:
            return None
        ref = G.write_fasta(case["contigs"], os.path.join(d, "ref.fa"))
        vcf, _ = write_phased_vcf(case, os.path.join(d, "phased.vcf"))
        bam, _ = build_bam(case, os.path.join(d, "reads.bam"))
        args = ["haplotag", "-o", "{out}/tagged.bam", "--reference", ref, "--output-haplotag-list", "{out}/list.tsv", vcf, bam]
        if case["opts"]["tag_supplementary"]:
            args.insert(1, "--tag-supplementary")
        for reg in case["opts"].get("regions") or []:
            args[1:1] = ["--regions", reg]
        return args, ["tagged.bam", "list.tsv"]


class ToolsPart(Base):
    """stats / compare / unphase / split / haplotagphase on generated files"""
    name = "tools"
    budget = {"quick": 96, "thorough": 800}
    nruns = 3

    def gen(self, draw):
        tool = draw(st.sampled_from(["stats", "compare", "unphase", "split", "haplotagphase", "find_snv_candidates"]))
        c = {"tool": tool}
        if tool in ("stats", "unphase"):
            enc = draw(st.sampled_from(["PS", "HP"]))
            m, _ = vm.gen_vcf(draw, nrecords=(3, 14), ploidy_choices=(2,), phasing=(enc,), hom_phased=True, stale_ps=(enc == "PS"))
            c["model"] = m
        elif tool == "compare":
            from props.c11_compare import gen_case
            c["cmp"] = gen_case(draw, draw(st.sampled_from([2, 2, 3])), draw(st.sampled_from([2, 3])) if True else 2)
            if c["cmp"]["ploidy"] > 2:
                c["cmp"]["files"] = c["cmp"]["files"][:2]
        elif tool == "split":
            from props.c14_split import gen_case
            c["split"] = gen_case(draw)
            # the list written below always has four columns, so --only-largest-block (ties between phase sets of a
            # chromosome are frequent in these lists) can be drawn freely
            c["split"]["opts"]["only_largest"] = draw(st.booleans())
            if c["split"]["opts"]["only_largest"] and draw(st.booleans()):
                # tie by construction: the tagged entries alternate between two phase sets of one chromosome
                tagged = [e for e in c["split"]["entries"] if e[1] != "none"]
                for i, e in enumerate(tagged[:len(tagged) // 2 * 2]):
                    e[2], e[3] = (100, "chr1") if i % 2 == 0 else (200, "chr1")
                for e in tagged[len(tagged) // 2 * 2:]:
                    e[1] = "none"
                c["split"]["tie"] = len(tagged) >= 2
        elif tool == "find_snv_candidates":
            g = P.gen_case(draw, nsamples=(1, 1), ncontigs=(1, 2), length=(300, 600), depth=(4, 10), read_len=(60, 250), paired_share=10,
                           clip_share=0, eqx_share=0, kinds=("snv",))
            g["noise"] = draw(st.integers(0, 10 ** 6))
            g["fsc"] = {"minabs": draw(st.sampled_from([1, 2, 3])), "multi": draw(st.booleans())}
            c["fsc"] = g
        else:
            from props.c17_haplotagphase import gen as gen17
            c["htp"] = gen17(draw)
        return c

    def prepare(self, case, d):
        tool = case["tool"]
        if tool == "stats":
            inp = vm.write_vcf(case["model"], os.path.join(d, "in.vcf"))
            return ["stats", "--tsv", "{out}/s.tsv", "--block-list", "{out}/b.tsv", "--gtf", "{out}/g.gtf", inp], ["s.tsv", "b.tsv", "g.gtf", "stdout"]
        if tool == "unphase":
            inp = vm.write_vcf(case["model"], os.path.join(d, "in.vcf"))
            return ["unphase", inp], ["stdout"]
        if tool == "compare":
            from props.c11_compare import write_file
            c = case["cmp"]
            if not all(any(x is not None for x in f["calls"][ch["name"]]) for f in c["files"] for ch in c["chroms"][:1]):
                return None
            paths = [write_file(c, i, os.path.join(d, "f%d.vcf" % i)) for i in range(len(c["files"]))]
            args = ["compare", "--ploidy", str(c["ploidy"]), "--tsv-pairwise", "{out}/p.tsv"]
            if c.get("ignore_sample_name"):
                args.append("--ignore-sample-name")
            if c.get("only_snvs"):
                args.append("--only-snvs")
            outs = ["p.tsv", "stdout"]
            if c["ploidy"] == 2:
                args += ["--switch-error-bed", "{out}/e.bed", "--longest-block-tsv", "{out}/l.tsv"]
                outs += ["e.bed", "l.tsv"]
            return args + paths, outs
        if tool == "find_snv_candidates":
            g = case["fsc"]
            reads = noisy_reads(g, G.render_specs(g, g["read_specs"]), g["noise"])
            if not reads:
                return None
            ref = G.write_fasta(g["contigs"], os.path.join(d, "ref.fa"))
            bam = G.write_bam(g, reads, os.path.join(d, "reads.bam"))
            args = ["find_snv_candidates", ref, bam, "--minabs", str(g["fsc"]["minabs"]), "-o", "{out}/cand.vcf"]
            if g["fsc"]["multi"]:
                args.append("--multi-allelics")
            return args, ["cand.vcf"]
        if tool == "split":
            from props.c14_split import write_reads
            c = case["split"]
            if not c["entries"]:
                return None
            ext = {"bam": "bam", "fastq": "fastq", "fastq.gz": "fastq.gz"}[c["fmt"]]
            rp = os.path.join(d, "reads." + ext)
            write_reads(c, rp)
            lp = os.path.join(d, "list.tsv")
            with open(lp, "w") as f:
                for n, hap, ps, chrom in c["entries"]:
                    f.write("%s\t%s\t%d\t%s\n" % (n, hap if hap in ("none", "H1", "H2") else "H1", ps, chrom))
            extra = [flag for key, flag in (("only_largest", "--only-largest-block"), ("discard_unknown", "--discard-unknown-reads"),
                                            ("add_untagged", "--add-untagged")) if c["opts"].get(key)]
            return ["split", "--output-h1", "{out}/h1." + ext, "--output-h2", "{out}/h2." + ext, "--output-untagged", "{out}/u." + ext,
                    "--read-lengths-histogram", "{out}/hist.tsv"] + extra + [rp, lp], ["h1." + ext, "h2." + ext, "u." + ext, "hist.tsv"]
        # haplotagphase: tag in-process first (deterministic input for the tool under test)
        from props.c10_haplotag import write_phased_vcf, run_tool
        c = case["htp"]
        reads = G.render_specs(c, c["read_specs"])
        if not reads:
            return None
        ref = G.write_fasta(c["contigs"], os.path.join(d, "ref.fa"))
        vcfgz, _ = write_phased_vcf(c, os.path.join(d, "phased.vcf"))
        bam = G.write_bam(c, reads, os.path.join(d, "reads.bam"))
        tagged = os.path.join(d, "tagged.bam")
        run_tool(vcfgz, bam, tagged, ref, {"ignore_linked_read": True})
        pysam.index(tagged)
        plain = G.write_vcf(c, os.path.join(d, "unphased.vcf"))
        return ["haplotagphase", "-o", "{out}/out.vcf", "--reference", ref, plain, tagged], ["out.vcf"]


PARTS = [PhasePart(), PedPhasePart(), GenotypePart(), PolyphasePart(), HaplotagPart(), ToolsPart()]
