"""C20 - auxiliary reports cover the whole run and agree with the phased VCF."""
import os
from hypothesis import strategies as st
import pysam

from vlib import genome as G, pipeline as P

ID = "C20"
RULE = ("Multi-chromosome (2-3 contigs), multi-family inputs: unrelated samples and/or one or two trios given by --ped, reads "
        "error-free at depth 1-5; optionally --distrust-genotypes with calls whose VCF genotype is heterozygous while both true "
        "haplotypes carry the same allele (so genotypes really change), recombinations planted in the children; all three list "
        "options requested. Oracle: (completeness, metamorphic) each list of the full run equals, as a multiset of lines, the "
        "union of the lists of the runs restricted to one chromosome and one family; (content) every listed read is in the "
        "trace of its (chromosome, family) and every traced read is listed, its phase-set column equals the PS of the output VCF "
        "at its first variant when that call is phased; changed-genotype lines are exactly the GT differences between input "
        "and output VCF, none without --distrust-genotypes; every recombination lies between two accessible variants of the "
        "chromosome, position1 < position2, inside one read/pedigree-connected component (trusted mode). Non-trivial = >= 2 "
        "chromosomes or families with list entries on one that is not processed last. Distinct = distinct generated case.")
ASSUMPTIONS = [
    "a run restricted to one chromosome and one family reproduces that part of the full run (C16 determinism)",
    "the phase-set column is compared with the output VCF, the read membership with the trace hook",
]


def gen(draw):
    from props.c05_pedigree import conflict
    layout = draw(st.sampled_from(["unrelated", "trio", "trio+unrelated", "two-trios"]))
    names = []
    trios = []
    if layout in ("trio", "trio+unrelated", "two-trios"):
        names += ["f1", "m1", "c1"]
        trios.append(["f1", "m1", "c1"])
    if layout == "two-trios":
        names += ["f2", "m2", "c2"]
        trios.append(["f2", "m2", "c2"])
    if layout == "unrelated":
        names += ["u1", "u2"][:draw(st.integers(1, 2))]
    if layout == "trio+unrelated":
        names += ["u1"]
    distrust = draw(st.integers(0, 2)) == 0
    c = P.gen_case(draw, sample_names=names, ncontigs=(2, 3), length=(300, 600), depth=(4, 10) if distrust else (1, 5), read_len=(50, 220), paired_share=10,
                   clip_share=0, eqx_share=0, mingap=30, maxgap=80, kinds=("snv", "snv", "snv", "ins", "del"))
    for fa, mo, ch in trios:
        for contig in c["contigs"]:
            name = contig["name"]
            n = len(c["variants"][name])
            f, m = c["haps"][fa][name], c["haps"][mo][name]
            for vi in range(n):
                if draw(st.integers(0, 3)) == 0:
                    who = draw(st.sampled_from([f, m]))
                    who[1][vi] = who[0][vi]
            fh, mh = draw(st.integers(0, 1)), draw(st.integers(0, 1))
            rf = sorted(draw(st.lists(st.integers(1, max(1, n - 1)), max_size=2)))
            chh = [[0] * n, [0] * n]
            for vi in range(n):
                a = (fh + sum(1 for r in rf if vi >= r)) % 2
                chh[0][vi] = f[a][vi]
                chh[1][vi] = m[mh][vi]
            c["haps"][ch][name] = chh
    gts = {s: {contig["name"]: [G.gt_of(c["haps"][s][contig["name"]], vi) for vi in range(len(c["variants"][contig["name"]]))]
               for contig in c["contigs"]} for s in names}
    if distrust:
        # VCF says heterozygous where the sample is truly homozygous (unrelated samples only: keeps pedigrees consistent)
        for s in names:
            if not s.startswith("u"):
                continue
            for contig in c["contigs"]:
                name = contig["name"]
                for vi in range(len(c["variants"][name])):
                    if draw(st.integers(0, 2)) == 0:
                        # make the sample truly homozygous here
                        a = draw(st.integers(0, 1))
                        for h in c["haps"][s][name]:
                            h[vi] = a
                        gts[s][name][vi] = G.gt_of(c["haps"][s][name], vi)
                    al = {h[vi] for h in c["haps"][s][name]}
                    if len(al) == 1 and draw(st.integers(0, 2)) > 0:
                        gts[s][name][vi] = "0/1"
    c["gts"] = gts
    c["trios"] = trios
    c["layout"] = layout
    c["opts"] = {"distrust": distrust, "tag": draw(st.sampled_from(["PS", "PS", "HP"])),
                 "lists": [draw(st.integers(0, 4)) > 0, draw(st.integers(0, 4)) > 0, draw(st.integers(0, 4)) > 0]}
    return c


def expected_recombinations(t, comp):
    """Recombination events implied by a trace record: for every component (sorted positions b) and every child, a change of
    the child's transmission value between b[i-1] and b[i] for i >= 2 (the tool does not report the first pair of a block).
    Returns sorted tuples (child, chromosome, pos1, pos2, father1, father2, mother1, mother2), 1-based positions."""
    tv = t["transmission_vector"]
    pos = t["accessible_positions"]
    idx = {p: i for i, p in enumerate(pos)}
    blocks = {}
    for p in pos:
        blocks.setdefault(comp[p], []).append(p)
    out = []
    for k, (fa, mo, ch) in enumerate(t["trios"]):
        for b in blocks.values():
            b = sorted(b)
            for i in range(2, len(b)):
                v1 = (tv[idx[b[i - 1]]] >> (2 * k)) & 3
                v2 = (tv[idx[b[i]]] >> (2 * k)) & 3
                if v1 != v2:
                    out.append((ch, t["chromosome"], b[i - 1] + 1, b[i] + 1, v1 % 2, v2 % 2, v1 // 2, v2 // 2))
    return sorted(out)


def read_lines(path):
    if not path or not os.path.exists(path):
        return None
    with open(path) as f:
        return [l.rstrip("\n") for l in f if not l.startswith("#")]


def vcf_gts(path):
    out = {}
    with pysam.VariantFile(path) as vf:
        for rec in vf:
            for s, call in rec.samples.items():
                gt = call["GT"]
                out[(s, rec.chrom, rec.pos)] = None if gt is None else tuple(sorted((-1 if a is None else a) for a in gt))
    return out


class ListsPart:
    name = "lists"
    budget = {"quick": 800, "thorough": 12000}

    def strategy(self, tier):
        @st.composite
        def case(draw):
            return gen(draw)
        return case()

    def run_once(self, case, d, tagname, paths, chromosomes=None, samples=None):
        o = case["opts"]
        kw = {}
        files = {}
        if o["lists"][0]:
            files["reads"] = kw["read_list_filename"] = os.path.join(d, tagname + "_reads.tsv")
        if o["lists"][1] :
            files["gt"] = kw["gtchange_list_filename"] = os.path.join(d, tagname + "_gt.tsv")
        if o["lists"][2] and case["trios"]:
            files["recomb"] = kw["recombination_list_filename"] = os.path.join(d, tagname + "_recomb.tsv")
        if case["trios"]:
            kw["ped"] = paths["ped"]
        if chromosomes:
            kw["chromosomes"] = chromosomes
        if samples:
            kw["samples"] = samples
        out, trace = P.run_phase(d, paths["vcf"], [paths["bam"]], reference=paths["ref"], tag=o["tag"], out_name=tagname + ".vcf",
                                 distrust_genotypes=o["distrust"], **kw)
        return out, trace, {k: read_lines(v) for k, v in files.items()}

    def run(self, case, ctx):
        d = ctx.tmp()
        reads = G.render_specs(case, case["read_specs"])
        if not reads:
            return
        paths = {"ref": G.write_fasta(case["contigs"], os.path.join(d, "ref.fa")),
                 "vcf": G.write_vcf(case, os.path.join(d, "in.vcf"), gts=case["gts"]),
                 "bam": G.write_bam(case, reads, os.path.join(d, "reads.bam"))}
        if case["trios"]:
            paths["ped"] = os.path.join(d, "fam.ped")
            with open(paths["ped"], "w") as f:
                for k, (fa, mo, ch) in enumerate(case["trios"]):
                    f.write("fam%d\t%s\t%s\t%s\t0\t1\n" % (k, ch, fa, mo))
        o = case["opts"]
        out, trace, lists = self.run_once(case, d, "full", paths)
        families = [t for t in case["trios"]] + [[s] for s in case["samples"] if s.startswith("u")]
        chroms = [c["name"] for c in case["contigs"]]
        # ---- completeness: union of restricted runs
        union = {k: [] for k in lists}
        for c in chroms:
            for fam in families:
                _, _, l2 = self.run_once(case, d, "part", paths, chromosomes=[c], samples=list(fam))
                for k in union:
                    union[k] += l2.get(k) or []
        for k in lists:
            if lists[k] is None:
                ctx.violation("lists:%s-missing" % k, "list file %s was not written" % k)
                continue
            if sorted(lists[k]) != sorted(union[k]):
                lost = sorted(set(union[k]) - set(lists[k]))
                extra = sorted(set(lists[k]) - set(union[k]))
                ctx.violation("lists:%s-incomplete" % k, "%s list of the full run has %d lines, the per-chromosome/per-family runs give %d; missing e.g. %r; unexpected e.g. %r" % (
                    k, len(lists[k]), len(union[k]), lost[:3], extra[:3]))
        # ---- content
        dec = P.decode_phasing(out)
        nt = False
        if lists.get("reads") is not None:
            listed = {}
            for line in lists["reads"]:
                p = line.split("\t")
                listed.setdefault((p[2], p[0]), []).append(p)
            traced = {}
            for t in trace:
                for r in t["reads"]:
                    traced.setdefault((r["sample"], r["name"]), []).append((t["chromosome"], r))
            if sorted((k, len(v)) for k, v in listed.items()) != sorted((k, len(v)) for k, v in traced.items()):
                ctx.violation("lists:reads-vs-trace", "listed reads differ from the reads handed to the solver: only listed %r, only traced %r" % (
                    sorted(set(listed) - set(traced))[:3], sorted(set(traced) - set(listed))[:3]))
            for key, items in traced.items():
                for (chrom, r), p in zip(items, listed.get(key, [])):
                    first = r["variants"][0][0]
                    call = dec.get(key[0], {}).get((chrom, first))
                    if call is not None and str(call[1]) != p[3]:
                        ctx.violation("lists:read-phaseset", "read %s of %s listed with phase set %s but its first variant %s:%d is in set %s in the VCF" % (
                            key[1], key[0], p[3], chrom, first + 1, call[1]))
                    if int(p[5]) != len(r["variants"]) or int(p[6]) != first + 1 or int(p[7]) != r["variants"][-1][0] + 1:
                        ctx.violation("lists:read-columns", "read %s: listed %r, trace %r" % (key[1], p, r["variants"]))
        if lists.get("gt") is not None:
            a, b = vcf_gts(paths["vcf"]), vcf_gts(out)
            diffs = sorted((s, c, pos) for (s, c, pos) in a if a[(s, c, pos)] != b.get((s, c, pos)))
            got = sorted((p[0], p[1], int(p[2]) + 1) for p in (l.split("\t") for l in lists["gt"]))
            if got != diffs:
                ctx.violation("lists:gtchange-vs-vcf", "changed-genotype list %r, GT differences between input and output VCF %r" % (got[:6], diffs[:6]))
            if not o["distrust"] and (got or diffs):
                ctx.violation("lists:gtchange-without-distrust", "genotypes changed without --distrust-genotypes: %r" % (diffs[:5],))
            if got:
                ctx.label("genotype-changes")
        if lists.get("recomb") is not None:
            acc = {}
            comp = {}
            for t in trace:
                if len(t["family"]) > 1:
                    acc.setdefault((t["chromosome"], tuple(t["family"])), set(t["accessible_positions"]))
                    if not o["distrust"]:
                        from props.c03_components import components_from_trace
                        idx = {v["pos"]: vi for vi, v in enumerate(case["variants"][t["chromosome"]])}
                        merge = [p for p in t["accessible_positions"]
                                 if any(len({h[idx[p]] for h in case["haps"][s][t["chromosome"]]}) == 1 for s in t["family"])]
                        comp[(t["chromosome"], tuple(t["family"]))] = components_from_trace(t, merge)
            for line in lists["recomb"]:
                p = line.split()
                child, chrom, p1, p2 = p[0], p[1], int(p[2]) - 1, int(p[3]) - 1
                fam = next((k for k in acc if k[0] == chrom and child in k[1]), None)
                if fam is None or p1 not in acc[fam] or p2 not in acc[fam] or not p1 < p2:
                    ctx.violation("lists:recombination-position", "recombination %r is not between two accessible variants of %s" % (line, chrom))
                elif fam in comp and comp[fam].get(p1) != comp[fam].get(p2):
                    ctx.violation("lists:recombination-across-sets", "recombination %r joins two different phase sets" % line)
            if not o["distrust"]:
                want = []
                for t in trace:
                    key = (t["chromosome"], tuple(t["family"]))
                    if len(t["family"]) > 1 and key in comp and t["transmission_vector"]:
                        want += expected_recombinations(t, comp[key])
                got = sorted((p[0], p[1], int(p[2]), int(p[3]), int(p[4]), int(p[5]), int(p[6]), int(p[7])) for p in (l.split() for l in lists["recomb"]))
                if got != sorted(want):
                    ctx.violation("lists:recombination-vs-transmission", "recombination list %r differs from the changes of the traced transmission vector inside components %r" % (
                        [g for g in got if g not in want][:3] + ["..."] + [w for w in want if w not in got][:3], len(want)))
            if lists["recomb"]:
                ctx.label("recombination-entries")
        # non-trivial: entries on a chromosome/family that is not the last one processed
        for k, lines in lists.items():
            if not lines:
                continue
            col = {"reads": None, "gt": 1, "recomb": 1}[k]
            if k == "reads":
                if len({t["chromosome"] for t in trace if t["reads"]}) >= 2 or len([t for t in trace if t["reads"]]) >= 2:
                    nt = True
            else:
                if any(l.split()[col] != chroms[-1] for l in lines) or len(families) > 1:
                    nt = True
        ctx.nontrivial(nt)
        ctx.label("layout-" + case["layout"])
        ctx.label("distrust" if o["distrust"] else "trusted")


class RecombPart:
    """trios/quartets with planted recombinations and interleaved components (N-gapped reads, optional
    --no-genetic-haplotyping): the recombination list must equal the changes of the traced transmission vector inside
    the recomputed components"""
    name = "recomb"
    budget = {"quick": 960, "thorough": 16000}

    def strategy(self, tier):
        @st.composite
        def case(draw):
            nchildren = draw(st.sampled_from([1, 1, 2]))
            names = ["father", "mother", "child"] + (["child2"] if nchildren == 2 else [])
            c = P.gen_case(draw, sample_names=names, ncontigs=(1, 1), length=(500, 1200), depth=(2, 7), read_len=(40, 160), paired_share=0,
                           skip_share=45, clip_share=0, eqx_share=0, mingap=25, maxgap=55, kinds=("snv",))
            name = c["contigs"][0]["name"]
            n = len(c["variants"][name])
            f, m = c["haps"]["father"][name], c["haps"]["mother"][name]
            for vi in range(n):
                if draw(st.integers(0, 5)) == 0:
                    who = draw(st.sampled_from([f, m]))
                    who[1][vi] = who[0][vi]
            for child in names[2:]:
                fh, mh = draw(st.integers(0, 1)), draw(st.integers(0, 1))
                rf = sorted(draw(st.lists(st.integers(1, max(1, n - 1)), min_size=0, max_size=2)))
                rm = sorted(draw(st.lists(st.integers(1, max(1, n - 1)), min_size=0, max_size=2)))
                ch = [[0] * n, [0] * n]
                for vi in range(n):
                    ch[0][vi] = f[(fh + sum(1 for r in rf if vi >= r)) % 2][vi]
                    ch[1][vi] = m[(mh + sum(1 for r in rm if vi >= r)) % 2][vi]
                c["haps"][child][name] = ch
            c["ped_order"] = list(draw(st.permutations(names[2:])))
            c["genetic"] = draw(st.sampled_from([True, True, False]))
            c["recombrate"] = draw(st.sampled_from([1.26, 1.26, 1000.0, 1e5]))
            if draw(st.booleans()):
                # nested component: variants heterozygous in every member are linked only among themselves by N-gapped
                # "linker" reads, while ordinary reads that would tie them to other variants are dropped
                S = [vi for vi in range(n) if all(len({h[vi] for h in c["haps"][s][name]}) == 2 for s in names)]
                V = c["variants"][name]
                L = len(c["contigs"][0]["seq"])

                def covers(sp, vi):
                    return any(a <= V[vi]["pos"] < b for a, b in sp["segments"])
                c["read_specs"] = [sp for sp in c["read_specs"]
                                   if not (any(covers(sp, vi) for vi in S) and any(covers(sp, vi) for vi in range(n) if vi not in S))]
                k = 0
                for s in names:
                    for i in range(0, max(0, len(S) - 1)):
                        for h in (0, 1):
                            if draw(st.integers(0, 2)) == 0:
                                continue
                            span = S[i:i + draw(st.integers(2, 3))]
                            segs = [[max(0, V[vi]["pos"] - 11), min(L, V[vi]["pos"] + 12)] for vi in span]
                            c["read_specs"].append({"name": "link_%s_%d" % (s, k), "sample": s, "chrom": name, "hap": h, "segments": segs})
                            k += 1
                c["linkers"] = True
            return c
        return case()

    def run(self, case, ctx):
        from props.c03_components import components_from_trace
        d = ctx.tmp()
        reads = G.render_specs(case, case["read_specs"])
        if not reads:
            return
        names = case["samples"]
        name = case["contigs"][0]["name"]
        ref = G.write_fasta(case["contigs"], os.path.join(d, "ref.fa"))
        vcf = G.write_vcf(case, os.path.join(d, "in.vcf"))
        bam = G.write_bam(case, reads, os.path.join(d, "reads.bam"))
        ped = G.write_ped([["father", "mother", ch] for ch in case.get("ped_order", names[2:])], os.path.join(d, "fam.ped"))
        rl = os.path.join(d, "recomb.tsv")
        out, trace = P.run_phase(d, vcf, [bam], reference=ref, ped=ped, recombination_list_filename=rl,
                                 genetic_haplotyping=case["genetic"], recombrate=case["recombrate"])
        variants = case["variants"][name]
        idx = {v["pos"]: vi for vi, v in enumerate(variants)}
        want = []
        interleaved = False
        for t in trace:
            if len(t["family"]) < 3 or not t["transmission_vector"]:
                continue
            merge = None
            if case["genetic"]:
                merge = [p for p in t["accessible_positions"] if any(len({h[idx[p]] for h in case["haps"][s][name]}) == 1 for s in t["family"])]
            comp = components_from_trace(t, merge)
            blocks = {}
            for p, cid in comp.items():
                blocks.setdefault(cid, []).append(p)
            ivs = sorted((min(b), max(b)) for b in blocks.values() if len(b) >= 3)
            if any(ivs[i + 1][0] < ivs[i][1] for i in range(len(ivs) - 1)) or any(
                    len(b) >= 3 and any(comp[q] != cid for q in t["accessible_positions"] if min(b) < q < max(b)) for cid, b in blocks.items()):
                interleaved = True
            want += expected_recombinations(t, comp)
        got = []
        for line in read_lines(rl) or []:
            p = line.split()
            got.append((p[0], p[1], int(p[2]), int(p[3]), int(p[4]), int(p[5]), int(p[6]), int(p[7])))
        if sorted(got) != sorted(want):
            ctx.violation("recomb:list-vs-transmission", "recombination list %r; changes of the traced transmission vector inside components %r" % (
                sorted(got)[:5], sorted(want)[:5]))
        ctx.nontrivial(bool(want) and interleaved)
        if want:
            ctx.label("recombination-entries")
        if interleaved:
            ctx.label("interleaved-components")
        ctx.label("genetic" if case["genetic"] else "no-genetic-haplotyping")


PARTS = [ListsPart(), RecombPart()]
