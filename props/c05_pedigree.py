"""C05 - pedigree phasing is Mendelian-consistent and ordered paternal|maternal."""
import os
from hypothesis import strategies as st

from vlib import genome as G, pipeline as P

ID = "C05"
RULE = ("Trios and two-child quartets on one contig: founders' haplotypes random (extra homozygous sites), children by random "
        "transmission with 0-2 planted recombinations; PED lines and VCF sample columns in independently drawn orders; a share of variants made Mendelian-inconsistent or missing in one "
        "member (in the VCF only); reads at depth 0-6 per member (error-free, or in a third of the cases with substitution errors at SNV sites), or absent altogether (phase without PHASEINPUT); "
        "uniform --recombrate (default and extreme values) or a generated --genmap; --tag PS/HP. Oracle on the output VCF: "
        "every phased child genotype a|b has a among the father's and b among the mother's alleles; variants with a conflict "
        "or a missing genotype in the family are unphased in all members; every child-heterozygous variant with a homozygous "
        "parent and no conflict/missing genotype is phased (genetic haplotyping on), even without reads; with the trace: "
        "between informative variants of one phase set the parental haplotype carrying the child's allele changes iff the "
        "reported transmission bit changes. Non-trivial = a child phased at >= 2 variants and (an excluded variant or a "
        "read-free forced variant or a recombination in the reported transmission). Distinct = distinct generated case.")
ASSUMPTIONS = [
    "trusted genotypes (no --distrust-genotypes), default exact algorithm",
    "the meaning of a transmission bit value is not assumed: only *changes* of the bit are related to changes of the transmitted parental haplotype",
]


def conflict(f, m, c):
    """Mendelian conflict for diploid allele lists"""
    return not ((c[0] in f and c[1] in m) or (c[1] in f and c[0] in m))


def gen(draw):
    from props.c03_components import gen_trio_case
    nchildren = draw(st.sampled_from([1, 1, 2]))
    names = ["father", "mother", "child"] + (["child2"] if nchildren == 2 else [])
    noreads = draw(st.integers(0, 5)) == 0
    c = P.gen_case(draw, sample_names=names, ncontigs=(1, 1), length=(400, 1000), depth=(0, 6), read_len=(50, 250), paired_share=15,
                   clip_share=0, eqx_share=0, sparse_contig_share=20)
    name = c["contigs"][0]["name"]
    n = len(c["variants"][name])
    f = c["haps"]["father"][name]
    m = c["haps"]["mother"][name]
    for vi in range(n):
        if draw(st.integers(0, 2)) == 0:
            who = draw(st.sampled_from([f, m]))
            who[1][vi] = who[0][vi]
    c["transmission"] = {}
    for child in names[2:]:
        fh, mh = draw(st.integers(0, 1)), draw(st.integers(0, 1))
        rf = sorted(draw(st.lists(st.integers(1, max(1, n - 1)), max_size=2)))
        rm = sorted(draw(st.lists(st.integers(1, max(1, n - 1)), max_size=1)))
        ch = [[0] * n, [0] * n]
        tf, tm = [], []
        for vi in range(n):
            a = (fh + sum(1 for r in rf if vi >= r)) % 2
            b = (mh + sum(1 for r in rm if vi >= r)) % 2
            ch[0][vi] = f[a][vi]
            ch[1][vi] = m[b][vi]
            tf.append(a)
            tm.append(b)
        c["haps"][child][name] = ch
        c["transmission"][child] = {"father": tf, "mother": tm}
    # VCF-level noise: conflicts and missing genotypes
    gts = {s: {name: [G.gt_of(c["haps"][s][name], vi) for vi in range(n)]} for s in names}
    noise = {}
    for vi in range(n):
        r = draw(st.integers(0, 11))
        if r == 0:
            who = draw(st.sampled_from(names))
            gts[who][name][vi] = draw(st.sampled_from(["./.", ".", "0/."]))
            noise[vi] = "missing"
        elif r == 1:
            # force a conflict for the first child if possible
            fa = sorted(h[vi] for h in f)
            mo = sorted(h[vi] for h in m)
            for cand in ([0, 0], [0, 1], [1, 1]):
                if conflict(fa, mo, cand):
                    gts["child"][name][vi] = "%d/%d" % tuple(cand)
                    noise[vi] = "conflict"
                    break
    c["gts"] = gts
    c["noise"] = {str(k): v for k, v in noise.items()}
    if noreads:
        c["read_specs"] = []
    # PED lines and VCF columns in independent orders
    c["read_noise"] = draw(st.integers(0, 10 ** 6)) if draw(st.integers(0, 2)) == 0 else None
    c["ped_order"] = list(draw(st.permutations(names[2:])))
    c["ped_founders"] = draw(st.sampled_from([None, None, "first", "last"]))
    c["vcf_order"] = list(draw(st.permutations(names))) if draw(st.booleans()) else list(names)
    c["opts"] = {"tag": draw(st.sampled_from(["PS", "PS", "HP"])),
                 "recomb": draw(st.sampled_from(["default", "default", "high", "low", "genmap"])),
                 "max_coverage": draw(st.sampled_from([15, 15, 6, 4]))}
    return c


def parse_gt(s):
    if "." in s:
        return None
    return [int(x) for x in s.replace("|", "/").split("/")]


class PedigreePart:
    name = "pedigree"
    budget = {"quick": 4000, "thorough": 60000}

    def strategy(self, tier):
        @st.composite
        def case(draw):
            return gen(draw)
        return case()

    def run(self, case, ctx):
        d = ctx.tmp()
        name = case["contigs"][0]["name"]
        names = case["samples"]
        children = names[2:]
        ref = G.write_fasta(case["contigs"], os.path.join(d, "ref.fa"))
        vcf = G.write_vcf(case, os.path.join(d, "in.vcf"), gts=case["gts"], samples=case.get("vcf_order"))
        reads = G.render_specs(case, case["read_specs"])
        if case.get("read_noise") is not None:
            # sequencing errors at SNV sites: the statements of the property do not depend on the reads being right
            from props.c16_determinism import noisy_reads
            reads = noisy_reads(case, reads, case["read_noise"])
            ctx.label("reads-with-errors")
        inputs = []
        if reads:
            inputs = [G.write_bam(case, reads, os.path.join(d, "reads.bam"))]
        ped = G.write_ped([["father", "mother", ch] for ch in case.get("ped_order", children)], os.path.join(d, "fam.ped"), founders=case.get("ped_founders"))
        o = case["opts"]
        kw = {}
        if o["recomb"] == "high":
            kw["recombrate"] = 1e6
        elif o["recomb"] == "low":
            kw["recombrate"] = 1e-6
        elif o["recomb"] == "genmap":
            gm = os.path.join(d, "genmap.txt")
            L = len(case["contigs"][0]["seq"])
            with open(gm, "w") as f:
                f.write("position COMBINED_rate(cM/Mb) Genetic_Map(cM)\n")
                f.write("1 0 0\n%d 1.0 0.00001\n%d 100.0 5.0\n%d 1.0 5.00002\n" % (L // 3, L // 2, L))
            kw["genmap"] = gm
        rl = os.path.join(d, "recomb.tsv")
        out, trace = P.run_phase(d, vcf, inputs, reference=ref, tag=o["tag"], ped=ped, max_coverage=o["max_coverage"],
                                 recombination_list_filename=rl, **kw)
        dec = P.decode_phasing(out)
        variants = case["variants"][name]
        n = len(variants)
        gts = {s: [parse_gt(case["gts"][s][name][vi]) for vi in range(n)] for s in names}
        nt_excluded = nt_forced = nt_recomb = False
        child_phased = 0
        covered = set()
        for t in trace:
            for r in t["reads"]:
                for v in r["variants"]:
                    covered.add(v[0])
        for vi, v in enumerate(variants):
            pos = v["pos"]
            fam = [gts[s][vi] for s in names]
            missing = any(g is None for g in fam)
            conf = False
            if not missing:
                conf = any(conflict(gts["father"][vi], gts["mother"][vi], gts[ch][vi]) for ch in children)
            phased_in = [s for s in names if (name, pos) in dec.get(s, {})]
            if missing or conf:
                if phased_in:
                    ctx.violation("pedigree:excluded-variant-phased", "%s:%d has a %s in the family (GTs %r) but is phased in %r" % (
                        name, pos + 1, "missing genotype" if missing else "Mendelian conflict", {s: case["gts"][s][name][vi] for s in names}, phased_in))
                nt_excluded = True
                continue
            for ch in children:
                call = dec.get(ch, {}).get((name, pos))
                g = gts[ch][vi]
                if call is not None:
                    child_phased += 1
                    a, b = call[0]
                    if a not in gts["father"][vi] or b not in gts["mother"][vi]:
                        ctx.violation("pedigree:not-paternal-maternal", "%s %s:%d phased %d|%d but father has %r and mother %r" % (
                            ch, name, pos + 1, a, b, gts["father"][vi], gts["mother"][vi]))
                if len(set(g)) == 2:
                    hom_parent = len(set(gts["father"][vi])) == 1 or len(set(gts["mother"][vi])) == 1
                    if hom_parent and call is None:
                        ctx.violation("pedigree:forced-variant-unphased", "%s %s:%d is heterozygous with a homozygous parent (father %r, mother %r) but is not phased (read-covered: %r)" % (
                            ch, name, pos + 1, gts["father"][vi], gts["mother"][vi], pos in covered))
                    if hom_parent and pos not in covered:
                        nt_forced = True
        # transmission consistency from the trace
        for t in trace:
            tv = t["transmission_vector"]
            if tv is None or len(t["family"]) < 3:
                continue
            posidx = {p: i for i, p in enumerate(t["accessible_positions"])}
            trios = t["trios"]
            if any(tv[i] != tv[i - 1] for i in range(1, len(tv))):
                nt_recomb = True
            for k, (fa, mo, ch) in enumerate(trios):
                for parent, bit, hapidx in ((fa, 2 * k, 0), (mo, 2 * k + 1, 1)):
                    prev = None
                    for vi, v in enumerate(variants):
                        pos = v["pos"]
                        if pos not in posidx:
                            continue
                        pc = dec.get(parent, {}).get((name, pos))
                        cc = dec.get(ch, {}).get((name, pos))
                        if pc is None or cc is None or pc[1] != cc[1]:
                            continue
                        p0, p1 = pc[0]
                        if p0 == p1:
                            continue
                        a = cc[0][hapidx]
                        if a not in (p0, p1):
                            continue
                        which = 0 if p0 == a else 1
                        tb = (tv[posidx[pos]] >> bit) & 1
                        if prev is not None and prev[2] == pc[1]:
                            if (which != prev[0]) != (tb != prev[1]):
                                ctx.violation("pedigree:transmission-mismatch", "%s from %s: between %d and %d the transmitted haplotype %s but transmission bit %d goes %d -> %d (vector %r)" % (
                                    ch, parent, prev[3] + 1, pos + 1, "changes" if which != prev[0] else "stays", bit, prev[1], tb, tv))
                        prev = (which, tb, pc[1], pos)
        # the recombination list is the public report of the transmission: it must list exactly the changes of the
        # transmission vector inside components (the tool skips the first pair of a component)
        from props.c20_aux_lists import expected_recombinations
        from props.c03_components import components_from_trace
        want = []
        for t in trace:
            if len(t["family"]) < 3 or not t["transmission_vector"]:
                continue
            idx = {v["pos"]: vi for vi, v in enumerate(variants)}
            merge = [p for p in t["accessible_positions"] if any(gts[s][idx[p]] is not None and len(set(gts[s][idx[p]])) == 1 for s in t["family"])]
            want += expected_recombinations(t, components_from_trace(t, merge))
        got = []
        if os.path.exists(rl):
            with open(rl) as f:
                for line in f:
                    if not line.startswith("#"):
                        p = line.split()
                        got.append((p[0], p[1], int(p[2]), int(p[3]), int(p[4]), int(p[5]), int(p[6]), int(p[7])))
        if sorted(got) != sorted(want):
            ctx.violation("pedigree:recombination-list", "recombination list %r, changes of the transmission vector inside components %r" % (sorted(got)[:4], sorted(want)[:4]))
        if want:
            ctx.label("recombination-listed")
        ctx.nontrivial(child_phased >= 2 and (nt_excluded or nt_forced or nt_recomb))
        for lab, flag in (("excluded-variant", nt_excluded), ("read-free-forced-variant", nt_forced), ("recombination-reported", nt_recomb),
                          ("no-reads-at-all", not reads), ("quartet", len(children) == 2), ("ped-order-differs-from-vcf-order", [x for x in case.get("vcf_order", names) if x in children] != case.get("ped_order", children)), ("recomb-" + o["recomb"], True), ("tag-" + o["tag"], True)):
            if flag:
                ctx.label(lab)


PARTS = [PedigreePart()]
