"""C10 - haplotag conserves every alignment and tags it with the best-agreeing haplotype."""
import contextlib, io, os
from hypothesis import strategies as st
import pysam

from vlib import genome as G, pipeline as P, vcfmodel as vm

ID = "C10"
RULE = ("(errorfree) pipeline cases with 1-2 samples and a known phasing written as PS or HP with 1-4 phase sets per contig; BAM "
        "with single and paired reads, supplementary / secondary / duplicate alignments, unmapped reads (placed and unplaced), "
        "reads without variants, stale HP/PS/PC tags, BX clouds; options --regions (sorted, disjoint), --tag-supplementary, "
        "--ignore-read-groups, --sample, --ignore-linked-read, --output-threads. Oracle: output records = input records "
        "(restricted to the regions) in order, each once, identical in every field and tag except HP/PS/PC; a tagged read carries "
        "the index of the haplotype it was copied from within the reported phase set; single-segment primary reads covering a "
        "phased het variant of exactly one set are tagged; untagged reads carry no HP/PS/PC; permuting the haplotypes of one "
        "phase set in the VCF permutes HP for exactly the reads tagged with that set. (quality) SNV-only cases of ploidy 2-4 in "
        "--no-reference mode with planted mismatches and per-base qualities: HP is the strict arg-max of the summed quality of "
        "matching alleles within the reported phase set, PC = best - second, ties stay untagged. Non-trivial = a read spanning "
        "two phase sets, a tie, a stale tag removed or a mate pair. Distinct = distinct generated case.")
ASSUMPTIONS = [
    "reads never cut a variant (partial overlaps are C06's subject); with reference every fully covered variant is detected",
    "a read pair is one read: both mates carry the tag decided from the alleles of both; supplementary/secondary records are only validity-checked in the error-free part",
    "error-free part: BX clouds consist of reads of one haplotype and are validity-checked; the quality part models mixed clouds exactly (whole contig within the default distance cut-off)",
]


def rec_key(a, drop=("HP", "PS", "PC")):
    tags = tuple(sorted((k, str(v)) for k, v in a.get_tags() if k not in drop))
    return (a.query_name, a.flag, a.reference_id, a.reference_start, a.mapping_quality, a.cigarstring, a.next_reference_id,
            a.next_reference_start, a.template_length, a.query_sequence, tuple(a.query_qualities) if a.query_qualities is not None else None, tags)


def phase_tags(a):
    d = {}
    for k in ("HP", "PS", "PC"):
        if a.has_tag(k):
            d[k] = a.get_tag(k)
    return d


def assign_sets(draw, n, maxsets=4):
    """contiguous phase sets over n variants: list of set index per variant"""
    k = draw(st.integers(1, min(maxsets, max(1, n))))
    cuts = sorted(draw(st.lists(st.integers(1, max(1, n - 1)), min_size=k - 1, max_size=k - 1))) if n > 1 else []
    out = []
    cur = 0
    for i in range(n):
        while cur < len(cuts) and i >= cuts[cur]:
            cur += 1
        out.append(cur)
    return out


def gen_errorfree(draw):
    c = P.gen_case(draw, nsamples=(1, 2), ncontigs=(1, 2), length=(400, 1000), depth=(1, 6), read_len=(60, 300), paired_share=25,
                   skip_share=0, clip_share=10, eqx_share=0)
    # phasing: per sample per contig, contiguous sets; an unphased share
    phasing = {}
    for s in c["samples"]:
        phasing[s] = {}
        for contig in c["contigs"]:
            name = contig["name"]
            n = len(c["variants"][name])
            sets = assign_sets(draw, n)
            unph = [draw(st.integers(0, 7)) == 0 for _ in range(n)]
            swap = {k: draw(st.booleans()) for k in set(sets)}
            phasing[s][name] = {"sets": sets, "unphased": unph, "swap": {str(k): v for k, v in swap.items()}}
    c["phasing"] = phasing
    c["enc"] = draw(st.sampled_from(["PS", "PS", "HP"]))
    c["ps_label"] = draw(st.sampled_from(["first", "first", "last", "arbitrary"]))
    # decorate reads
    extra = []
    for i, sp in enumerate(c["read_specs"]):
        r = draw(st.integers(0, 19))
        if r == 0:
            sp["flag_extra"] = 1024          # duplicate
            sp["stale"] = draw(st.booleans())    # tags left by an earlier run, also on records that are not tagged now
        elif r == 1:
            sp["flag_extra"] = 256           # secondary
            sp["stale"] = draw(st.booleans())
        elif r == 2:
            sp["stale"] = True
        elif r == 3 and "pair" not in sp:
            # supplementary alignment of the same read elsewhere on the contig (same haplotype)
            L = len(next(x for x in c["contigs"] if x["name"] == sp["chrom"])["seq"])
            s2 = draw(st.integers(0, max(0, L - 60)))
            sup = dict(sp)
            sup["segments"] = P.snap_segments([[s2, min(L, s2 + draw(st.integers(40, 150)))]], c["variants"][sp["chrom"]], L)
            sup["flag_extra"] = 2048
            sup["stale"] = draw(st.booleans())
            sup.pop("clips", None)
            if draw(st.integers(0, 2)) == 0:
                sup["mapq"] = draw(st.sampled_from([0, 3, 19, 20, 255]))
            if sup["segments"]:
                extra.append(sup)
        if draw(st.integers(0, 7)) == 0:
            # mapping qualities around the reader's threshold (20): such alignments must still be conserved
            sp["mapq"] = draw(st.sampled_from([0, 3, 19, 20, 255]))
        if draw(st.integers(0, 5)) == 0:
            sp["bx"] = "BX%d_%d_%s" % (sp["hap"], draw(st.integers(0, 2)), sp["sample"])
    c["read_specs"] += extra
    if len(c["contigs"]) == 2 and draw(st.integers(0, 3)) == 0:
        c["vcf_empty_contig"] = c["contigs"][draw(st.integers(0, 1))]["name"]
    if len(c["contigs"]) == 2 and draw(st.integers(0, 2)) == 0:
        # read names shared between contigs (mates of a discordant pair, repeated names): every contig is tagged on its own,
        # an alignment is judged by the variants its name covers on its own contig
        a_name, b_name = c["contigs"][0]["name"], c["contigs"][1]["name"]
        on_a = [sp for sp in c["read_specs"] if sp["chrom"] == a_name and "pair" not in sp and not sp.get("flag_extra")]
        on_b = [sp for sp in c["read_specs"] if sp["chrom"] == b_name and "pair" not in sp and not sp.get("flag_extra")]
        sup_names = {sp["name"] for sp in c["read_specs"] if sp.get("flag_extra")}
        for x, y in list(zip(on_a, on_b))[:draw(st.integers(1, 3))]:
            if x["sample"] == y["sample"] and x["name"] not in sup_names and y["name"] not in sup_names:
                y["name"] = x["name"]
                c["shared_names"] = True
    c["unmapped"] = draw(st.integers(0, 2))
    c["unmapped_placed"] = draw(st.integers(0, 1))
    c["unmapped_stale"] = draw(st.booleans())
    contigs = [x["name"] for x in c["contigs"]]
    regions = None
    if draw(st.integers(0, 2)) == 0:
        regions = []
        for name in contigs:
            if draw(st.booleans()):
                L = len(next(x for x in c["contigs"] if x["name"] == name)["seq"])
                kind = draw(st.sampled_from(["whole", "one", "two"]))
                if kind == "whole":
                    regions.append(name)
                elif kind == "one":
                    a = draw(st.integers(1, L - 50))
                    regions.append("%s:%d-%d" % (name, a, min(L, a + draw(st.integers(30, 400)))))
                else:
                    a = draw(st.integers(1, L // 2 - 20))
                    b = min(L // 2, a + draw(st.integers(20, 200)))
                    c2 = draw(st.integers(b + 1, L - 20))
                    regions.append("%s:%d-%d" % (name, a, b))
                    regions.append("%s:%d-%d" % (name, c2, min(L, c2 + draw(st.integers(20, 300)))))
        if not regions:
            regions = None
    c["opts"] = {"regions": regions, "tag_supplementary": draw(st.booleans()), "ignore_read_groups": len(c["samples"]) == 1 and draw(st.integers(0, 3)) == 0,
                 "sample": draw(st.sampled_from([None, None, c["samples"][0]])), "ignore_linked_read": draw(st.booleans()),
                 "threads": draw(st.sampled_from([1, 1, 3]))}
    # metamorphic: which (sample, contig, set) gets swapped
    c["swapset"] = [draw(st.integers(0, len(c["samples"]) - 1)), draw(st.integers(0, len(contigs) - 1)), draw(st.integers(0, 3))]
    return c


def set_label(case, variants, sets, k):
    """PS value of the k-th phase set of a contig: by default the 1-based position of its first variant (as whatshap phase
    names sets); a VCF may use any integer - case["ps_label"] = "last" names a set by its last variant, "arbitrary" by a
    number unrelated to positions"""
    members = [i for i, x in enumerate(sets) if x == k]
    mode = case.get("ps_label", "first")
    if mode == "last":
        return variants[members[-1]]["pos"] + 1
    if mode == "arbitrary":
        return 1000003 + 17 * k
    return variants[members[0]]["pos"] + 1


def write_phased_vcf(case, path, swap_extra=None):
    """phased VCF from the case's phasing; returns truth {sample: {(contig, vi): (set id, hap order)}}"""
    truth = {}
    with open(path, "w") as f:
        f.write("##fileformat=VCFv4.2\n")
        for c in case["contigs"]:
            f.write("##contig=<ID=%s,length=%d>\n" % (c["name"], len(c["seq"])))
        f.write('##FORMAT=<ID=GT,Number=1,Type=String,Description="gt">\n##FORMAT=<ID=PS,Number=1,Type=Integer,Description="ps">\n')
        f.write('##FORMAT=<ID=HP,Number=.,Type=String,Description="hp">\n')
        f.write("#CHROM\tPOS\tID\tREF\tALT\tQUAL\tFILTER\tINFO\tFORMAT\t" + "\t".join(case["samples"]) + "\n")
        for c in case["contigs"]:
            name = c["name"]
            variants = case["variants"][name]
            if case.get("vcf_empty_contig") == name:
                continue        # the contig is declared but has no record: its alignments pass through untagged
            for vi, v in enumerate(variants):
                if v.get("hidden"):
                    continue
                cols = []
                for s in case["samples"]:
                    ph = case["phasing"][s][name]
                    hc = case["haps"][s][name]
                    al = [h[vi] for h in hc]
                    k = ph["sets"][vi]
                    sid = set_label(case, variants, ph["sets"], k)
                    if vi in case.get("missing_gt", {}).get(name, []):
                        cols.append("./.:.")
                        continue
                    if len(set(al)) < 2 or ph["unphased"][vi]:
                        cols.append("/".join(map(str, sorted(al))) + ":.")
                        continue
                    order = list(range(len(al)))
                    if ph["swap"].get(str(k)):
                        order = order[::-1]
                    if swap_extra and swap_extra == (s, name, k):
                        order = order[1:] + order[:1]
                    truth.setdefault(s, {})[(name, vi)] = (sid, order)
                    listed = [al[h] for h in order]
                    if case["enc"] == "PS":
                        cols.append("|".join(map(str, listed)) + ":%d" % sid)
                    else:
                        # HP: GT sorted, HP gives the haplotype of each listed allele
                        idx = sorted(range(len(listed)), key=lambda j: (listed[j], j))
                        cols.append("/".join(str(listed[j]) for j in idx) + ":" + ",".join("%d-%d" % (sid, j + 1) for j in idx))
                f.write("%s\t%d\t.\t%s\t%s\t.\tPASS\t.\tGT:%s\t%s\n" % (name, v["pos"] + 1, v["ref"], v["alt"], case["enc"], "\t".join(cols)))
    return vm.bgzip_tabix(path), truth


def build_bam(case, path):
    reads = G.render_specs(case, case["read_specs"])
    for r in reads:
        sp = r["spec"]
        if sp.get("flag_extra"):
            r["flag"] = r.get("flag", 0) | sp["flag_extra"]
        tags = {}
        if sp.get("stale"):
            tags.update({"HP": 2, "PS": 12345, "PC": 77})
        if sp.get("bx"):
            tags["BX"] = sp["bx"]
        if tags:
            r["tags"] = tags
    for i in range(case.get("unmapped", 0)):
        reads.append({"name": "unmapped%d" % i, "sample": case["samples"][0], "unmapped": True, "flag": 4, "seq": "ACGTACGTAC", "chrom": None})
    for i in range(case.get("unmapped_placed", 0)):
        c0 = case["contigs"][0]
        reads.append({"name": "unmapped_placed%d" % i, "sample": case["samples"][0], "unmapped": True, "flag": 4, "seq": "ACGTACGTTT",
                      "chrom": c0["name"], "pos": min(50, len(c0["seq"]) - 1)})
        if case.get("unmapped_stale"):
            reads[-1]["tags"] = {"HP": 1, "PS": 12345, "PC": 60}
    return G.write_bam(case, reads, path), reads


def run_tool(vcf, bam, out, ref, opts, reference=True, ploidy=2, hl=None):
    from whatshap.cli.haplotag import run_haplotag
    buf = io.StringIO()
    with contextlib.redirect_stdout(buf), contextlib.redirect_stderr(buf):
        run_haplotag(variant_file=vcf, alignment_file=bam, output=out, reference=ref if reference else False,
                     regions=opts.get("regions"), ignore_linked_read=opts.get("ignore_linked_read", False),
                     given_samples=[opts["sample"]] if opts.get("sample") else None, ignore_read_groups=opts.get("ignore_read_groups", False),
                     tag_supplementary=opts.get("tag_supplementary", False), output_threads=opts.get("threads", 1), ploidy=ploidy,
                     haplotag_list=hl, **({"linked_read_distance_cutoff": opts["cutoff"]} if opts.get("cutoff") is not None else {}))


def in_regions(a, regions, names):
    """pysam fetch semantics: alignment overlaps [start, end) of a region on its contig"""
    if a.is_unmapped and a.reference_id < 0:
        return regions is None
    if regions is None:
        return True
    hit = 0
    for reg in regions:
        if ":" in reg:
            chrom, rng = reg.split(":")
            s, e = rng.split("-")
            s, e = int(s) - 1, int(e)
        else:
            chrom, s, e = reg, 0, 10 ** 9
        if names[a.reference_id] != chrom:
            continue
        astart = a.reference_start
        aend = a.reference_end if (a.reference_end is not None and not a.is_unmapped) else astart + 1
        if astart < e and aend > s:
            hit += 1
    return hit


class ErrorFreePart:
    name = "errorfree"
    budget = {"quick": 2400, "thorough": 30000}

    def strategy(self, tier):
        @st.composite
        def case(draw):
            return gen_errorfree(draw)
        return case()

    def run(self, case, ctx):
        d = ctx.tmp()
        if not case["read_specs"]:
            return
        ref = G.write_fasta(case["contigs"], os.path.join(d, "ref.fa"))
        vcf, truth = write_phased_vcf(case, os.path.join(d, "phased.vcf"))
        bam, reads = build_bam(case, os.path.join(d, "reads.bam"))
        o = case["opts"]
        out = os.path.join(d, "tagged.bam")
        hl = os.path.join(d, "haplotags.tsv")
        run_tool(vcf, bam, out, ref, o, hl=hl)
        names = [c["name"] for c in case["contigs"]]
        with pysam.AlignmentFile(bam, check_sq=False) as f:
            inp = list(f.fetch(until_eof=True))
        try:
            with pysam.AlignmentFile(out, check_sq=False) as f:
                res = list(f.fetch(until_eof=True))
        except Exception as e:
            from vlib.harness import OutputError
            raise OutputError("haplotag:output-unreadable", "cannot read output BAM: %s" % e)
        # ---- conservation
        expect = []
        dup_region = False
        for a in inp:
            k = in_regions(a, o["regions"], names)
            if k:
                expect.append(a)
            if k and k is not True and k > 1:
                dup_region = True
        if o["regions"]:
            # order of output follows contig order of the regions dictionary, then region order; records overlapping two
            # requested regions of a contig are expected once
            order = []
            for reg in o["regions"]:
                chrom = reg.split(":")[0]
                if chrom not in order:
                    order.append(chrom)
            expect.sort(key=lambda a: order.index(names[a.reference_id]))
        got_keys = [rec_key(a) for a in res]
        want_keys = [rec_key(a) for a in expect]
        if got_keys != want_keys:
            sig = "haplotag:conservation"
            if o["regions"]:
                sig += ":regions"
                if dup_region and sorted(set(got_keys)) == sorted(set(want_keys)) and len(got_keys) > len(want_keys):
                    sig += ":read-overlapping-two-regions-duplicated"
            ctx.violation(sig, "output has %d records, expected %d; first difference at index %s; regions %r" % (
                len(got_keys), len(want_keys), next((i for i, (x, y) in enumerate(zip(got_keys, want_keys)) if x != y), min(len(got_keys), len(want_keys))), o["regions"]))
        # ---- the haplotag list describes the written primary alignments, in order
        try:
            with open(hl) as f:
                lines = [l.rstrip("\n").split("\t") for l in f]
        except OSError as e:
            lines = None
            ctx.violation("haplotag:list-missing", "haplotag list not written: %s" % e)
        if lines is not None:
            # a leading comment line (column names) is not content
            body = [l for i, l in enumerate(lines) if not (i == 0 and l and l[0].startswith("#"))]
            want_lines = []
            for a in res:
                if a.reference_id < 0 or a.is_secondary or a.is_supplementary:
                    continue
                t = phase_tags(a)
                want_lines.append([a.query_name, "H%d" % t["HP"] if "HP" in t else "none", str(t["PS"]) if "PS" in t else "none", names[a.reference_id]])
            if body != want_lines:
                i = next((i for i, (x, y) in enumerate(zip(body, want_lines)) if x != y), min(len(body), len(want_lines)))
                ctx.violation("haplotag:list-vs-bam", "haplotag list has %d entries, the output BAM %d primary alignments on the contigs; first difference at %d: %r vs %r" % (
                    len(body), len(want_lines), i, body[i:i + 1], want_lines[i:i + 1]))
        # ---- decision (truth) for tagged reads, per name
        spec_by_name = {}
        for r in reads:
            spec_by_name.setdefault(r["name"], []).append(r)
        targets = set(case["samples"]) if not o["sample"] else {o["sample"]}
        nt = False
        seen_names = set()
        for a in res:
            tags = phase_tags(a)
            rs = spec_by_name.get(a.query_name)
            if a.is_unmapped or a.is_secondary or (a.is_supplementary and not o["tag_supplementary"]):
                if tags:
                    ctx.violation("haplotag:ignored-read-tagged", "alignment %s flag %d carries %r" % (a.query_name, a.flag, tags))
                continue
            if rs is not None:
                rs = [x for x in rs if x.get("chrom") == a.reference_name] or None
            if rs is None or "hap" not in rs[0]:
                continue
            sample = rs[0]["sample"]
            chrom = rs[0]["chrom"]
            hap = rs[0]["hap"]
            stale = any(x["spec"].get("stale") for x in rs)
            if tags and set(tags) != {"HP", "PS", "PC"} and not (set(tags) == {"HP", "PS"}):
                ctx.violation("haplotag:partial-tags", "alignment %s carries %r" % (a.query_name, tags))
                continue
            if sample not in targets:
                if tags:
                    ctx.violation("haplotag:non-target-sample-tagged", "read %s of sample %s tagged %r" % (a.query_name, sample, tags))
                continue
            # phased het variants fully inside some aligned block of any record with this name
            cov = {}
            for x in rs:
                if x["spec"].get("flag_extra", 0) & (256 | 2048):
                    continue
                for vi, v in enumerate(case["variants"][chrom]):
                    if (chrom, vi) in truth.get(sample, {}) and G.coverage_class(x, v) == "full":
                        cov[vi] = truth[sample][(chrom, vi)]
            sets = {sid for sid, _ in cov.values()}
            if tags:
                if tags["PS"] not in sets:
                    bx = rs[0]["spec"].get("bx")
                    if bx and not o["ignore_linked_read"]:
                        # a read cloud is pooled per contig and sample: the set must be one that some read of the same
                        # barcode covers on this contig
                        cloud_sets = set()
                        for x in reads:
                            if x.get("spec", {}).get("bx") == bx and x.get("chrom") == chrom and not x["spec"].get("flag_extra", 0) & (256 | 2048):
                                for vi, v in enumerate(case["variants"][chrom]):
                                    if (chrom, vi) in truth.get(sample, {}) and G.coverage_class(x, v) == "full":
                                        cloud_sets.add(truth[sample][(chrom, vi)][0])
                        if tags["PS"] not in cloud_sets:
                            ctx.violation("haplotag:cloud-phase-set", "read %s (barcode %s) on %s tagged with PS %r; reads of that barcode cover sets %r there" % (
                                a.query_name, bx, chrom, tags["PS"], sorted(cloud_sets)))
                    else:
                        ctx.violation("haplotag:phase-set", "read %s tagged with PS %r but covers phased variants of sets %r only" % (a.query_name, tags["PS"], sorted(sets)))
                    continue
                order = next(od for sid, od in cov.values() if sid == tags["PS"])
                want = order.index(hap) + 1
                if tags["HP"] != want:
                    ctx.violation("haplotag:wrong-haplotype", "read %s (copied from haplotype %d of %s) tagged HP=%r in set %r where that haplotype is listed as number %d" % (
                        a.query_name, hap, sample, tags["HP"], tags["PS"], want))
                if len(sets) > 1:
                    nt = True
                    ctx.label("read-spanning-two-sets")
                if len(rs) > 1:
                    nt = True
            else:
                if stale:
                    nt = True
                    ctx.label("stale-tag-removed")
                # a plain read or read pair (both mates primary, well mapped)
                single = all(not x["spec"].get("flag_extra") and x["spec"].get("mapq", 60) >= 20 for x in rs)
                region_ok = o["regions"] is None
                if single and len(sets) == 1 and region_ok and not rs[0]["spec"].get("bx"):
                    ctx.violation("haplotag:untagged-but-informative", "primary read (pair) %s covers phased heterozygous variants of exactly one set %r but is untagged" % (a.query_name, sorted(sets)))
        # ---- metamorphic: swap the haplotypes of one phase set
        si, ci, k = case["swapset"]
        s = case["samples"][si]
        cname = names[min(ci, len(names) - 1)]
        ksets = sorted(set(case["phasing"][s][cname]["sets"]))
        if ksets and not o["regions"]:
            k = ksets[k % len(ksets)]
            vcf2, truth2 = write_phased_vcf(case, os.path.join(d, "phased2.vcf"), swap_extra=(s, cname, k))
            out2 = os.path.join(d, "tagged2.bam")
            run_tool(vcf2, bam, out2, ref, o)
            with pysam.AlignmentFile(out2, check_sq=False) as f:
                res2 = list(f.fetch(until_eof=True))
            sid = set_label(case, case["variants"][cname], case["phasing"][s][cname]["sets"], k)
            if len(res2) != len(res):
                ctx.violation("haplotag:relabel", "record count changes %d -> %d" % (len(res), len(res2)))
            else:
                for a, b in zip(res, res2):
                    ta, tb = phase_tags(a), phase_tags(b)
                    rs = spec_by_name.get(a.query_name)
                    if rs is not None:
                        rs = [x for x in rs if x.get("chrom") == a.reference_name] or None
                    if rs is not None and not o["ignore_linked_read"] and any(x.get("spec", {}).get("bx") for x in rs):
                        # pooled read clouds are order dependent (several phase sets with equal scores); validity only
                        continue
                    mine = rs is not None and "hap" in rs[0] and rs[0]["sample"] == s and rs[0]["chrom"] == cname and ta.get("PS") == sid
                    if mine:
                        if set(ta) != set(tb) or tb.get("PS") != sid or ta.get("PC") != tb.get("PC") or {ta.get("HP"), tb.get("HP")} != {1, 2}:
                            ctx.violation("haplotag:relabel", "read %s in swapped set %d: tags %r -> %r" % (a.query_name, sid, ta, tb))
                    elif ta != tb:
                        ctx.violation("haplotag:relabel", "read %s outside the swapped set: tags %r -> %r" % (a.query_name, ta, tb))
                ctx.label("relabel-checked")
        # ---- history: tagging the tagged file again (stale tags of the first run, a second @PG whatshap entry) changes nothing
        try:
            if not res:
                raise LookupError("empty output: the tool refuses an alignment file without reads")
            pysam.index(out)
            out3 = os.path.join(d, "tagged_again.bam")
            run_tool(vcf, out, out3, ref, o)
            with pysam.AlignmentFile(out3, check_sq=False) as f:
                res3 = list(f.fetch(until_eof=True))
                pg3 = [pg.get("ID") for pg in f.header.to_dict().get("PG", [])]
        except LookupError:
            res3 = None
        except Exception as e:
            from vlib.harness import OutputError
            if isinstance(e, OutputError) or not any("whatshap" in (fr.filename or "") for fr in __import__("traceback").extract_tb(e.__traceback__)):
                raise
            ctx.violation("haplotag:rerun-crash:%s" % type(e).__name__, "haplotag on its own output: %r" % (e,))
            res3 = None
        if res3 is not None:
            if [a.to_string() for a in res3] != [a.to_string() for a in res]:
                i = next((i for i, (x, y) in enumerate(zip(res3, res)) if x.to_string() != y.to_string()), min(len(res), len(res3)))
                ctx.violation("haplotag:rerun-differs", "haplotag applied to its own output: %d -> %d records, first difference at %d: %r vs %r" % (
                    len(res), len(res3), i, res[i].to_string()[:200] if i < len(res) else None, res3[i].to_string()[:200] if i < len(res3) else None))
            ctx.label("rerun-checked")
        ctx.nontrivial(nt)
        if o["regions"]:
            ctx.label("regions")
        if case.get("vcf_empty_contig"):
            ctx.label("contig-without-variants")
        if case.get("shared_names"):
            ctx.label("read-names-shared-between-contigs")


# ------------------------------------------------------------------ quality model

def gen_quality(draw):
    ploidy = draw(st.sampled_from([2, 2, 3, 4]))
    L = draw(st.integers(300, 700))
    seq = G.random_seq(draw(st.integers(0, 10 ** 6)), L)
    variants = G.gen_contig_variants(draw, seq, mingap=12, maxgap=60, kinds=("snv",), maxvars=14)
    haps = G.gen_haplotypes(draw, len(variants), ploidy)
    sets = assign_sets(draw, len(variants), 3)
    linked = draw(st.integers(0, 2)) == 0
    paired = draw(st.integers(0, 2)) == 0
    # linked-read options: a distance cut-off small enough to separate reads of one barcode into several clouds, or the
    # barcodes ignored altogether (pairs are left out then: the distance of a pair to another read is not modelled)
    cutoff, ignore_bx = None, False
    if linked:
        cutoff = draw(st.sampled_from([None, None, 20, 60, 150]))
        ignore_bx = draw(st.integers(0, 5)) == 0
        if cutoff is not None:
            paired = False
    reads = []
    for i in range(draw(st.integers(3, 14))):
        h = draw(st.integers(0, ploidy - 1))
        s = draw(st.integers(0, L - 40))
        e = min(L, s + draw(st.integers(30, 250)))
        errs = {}
        quals = {}
        for vi, v in enumerate(variants):
            if s <= v["pos"] < e:
                quals[str(vi)] = draw(st.sampled_from([5, 10, 10, 20, 30, 40]))
                if draw(st.integers(0, 5)) == 0:
                    errs[str(vi)] = True
        reads.append({"name": "q%d" % i, "hap": h, "start": s, "end": e, "errors": errs, "quals": quals})
        if paired and e + 5 < L - 30 and draw(st.integers(0, 1)) == 0:
            # second mate of a read pair, to the right of the first and not overlapping it; usual orientation is FR
            s2 = draw(st.integers(e + 1, L - 30))
            e2 = min(L, s2 + draw(st.integers(30, 150)))
            m = {"start": s2, "end": e2, "errors": {}, "quals": {}, "orientation": draw(st.sampled_from(["FR", "FR", "FF", "RF"]))}
            for vi, v in enumerate(variants):
                if s2 <= v["pos"] < e2:
                    m["quals"][str(vi)] = draw(st.sampled_from([5, 10, 10, 20, 30, 40]))
                    if draw(st.integers(0, 3)) == 0:
                        m["errors"][str(vi)] = True
            reads[-1]["mate"] = m
        # linked reads: barcodes shared by reads of different haplotypes (the cloud is scored as a whole)
        if linked and draw(st.integers(0, 1)) == 0:
            reads[-1]["bx"] = draw(st.sampled_from(["B0", "B1", "B2"]))
    return {"ploidy": ploidy, "seq": seq, "variants": variants, "haps": haps, "sets": sets, "reads": reads, "cutoff": cutoff,
            "ignore_linked_read": ignore_bx}


class QualityPart:
    name = "quality"
    budget = {"quick": 2400, "thorough": 30000}

    def strategy(self, tier):
        @st.composite
        def case(draw):
            return gen_quality(draw)
        return case()

    def run(self, case, ctx):
        d = ctx.tmp()
        ploidy = case["ploidy"]
        seq = case["seq"]
        variants = case["variants"]
        if not variants:
            return
        gcase = {"contigs": [{"name": "chr1", "seq": seq}], "samples": ["s"]}
        # VCF
        vcf = os.path.join(d, "p.vcf")
        with open(vcf, "w") as f:
            f.write("##fileformat=VCFv4.2\n##contig=<ID=chr1,length=%d>\n" % len(seq))
            f.write('##FORMAT=<ID=GT,Number=1,Type=String,Description="gt">\n##FORMAT=<ID=PS,Number=1,Type=Integer,Description="ps">\n')
            f.write("#CHROM\tPOS\tID\tREF\tALT\tQUAL\tFILTER\tINFO\tFORMAT\ts\n")
            for vi, v in enumerate(variants):
                al = [h[vi] for h in case["haps"]]
                first = min(i for i, x in enumerate(case["sets"]) if x == case["sets"][vi])
                sid = variants[first]["pos"] + 1
                if len(set(al)) < 2:
                    f.write("chr1\t%d\t.\t%s\t%s\t.\tPASS\t.\tGT:PS\t%s:.\n" % (v["pos"] + 1, v["ref"], v["alt"], "/".join(map(str, al))))
                else:
                    f.write("chr1\t%d\t.\t%s\t%s\t.\tPASS\t.\tGT:PS\t%s:%d\n" % (v["pos"] + 1, v["ref"], v["alt"], "|".join(map(str, al)), sid))
        vcfgz = vm.bgzip_tabix(vcf)
        # reads with substitutions at SNV sites and per-base qualities
        recs = []
        segments = []
        for r in case["reads"]:
            segments.append((r, r, 0))
            if r.get("mate"):
                segments.append((r, r["mate"], 1))
        for r, seg, which in segments:
            s, e = seg["start"], seg["end"]
            bases = list(seq[s:e])
            quals = [30] * (e - s)
            for vi, v in enumerate(variants):
                if s <= v["pos"] < e:
                    al = case["haps"][r["hap"]][vi]
                    if seg["errors"].get(str(vi)):
                        al = 1 - al
                    bases[v["pos"] - s] = v["alt"] if al else v["ref"]
                    quals[v["pos"] - s] = seg["quals"][str(vi)]
            recs.append({"name": r["name"], "sample": "s", "chrom": "chr1", "pos": s, "cigar": "%dM" % (e - s), "seq": "".join(bases), "qual": quals})
            if r.get("bx"):
                recs[-1]["tags"] = {"BX": r["bx"]}
            if r.get("mate"):
                o = r["mate"]["orientation"]
                rev = {"FR": (0, 16), "FF": (0, 0), "RF": (16, 0)}[o][which]
                mrev = {"FR": (32, 0), "FF": (0, 0), "RF": (0, 32)}[o][which]
                recs[-1]["flag"] = 1 | 2 | (64 if which == 0 else 128) | rev | mrev
                other = r["mate"] if which == 0 else r
                recs[-1]["mate"] = {"chrom": "chr1", "pos": other["start"]}
        bam = G.write_bam(gcase, recs, os.path.join(d, "q.bam"))
        out = os.path.join(d, "qt.bam")
        cutoff, ignore_bx = case.get("cutoff"), case.get("ignore_linked_read", False)
        run_tool(vcfgz, bam, out, None, {"cutoff": cutoff, "ignore_linked_read": ignore_bx}, reference=False, ploidy=ploidy)
        res = {}
        with pysam.AlignmentFile(out, check_sq=False) as f:
            for a in f.fetch(until_eof=True):
                t = phase_tags(a)
                if a.query_name in res and res[a.query_name] != t:
                    ctx.violation("quality:mates-differ", "the two alignments of pair %s carry %r and %r" % (a.query_name, res[a.query_name], t))
                res[a.query_name] = t
        nt = False
        own_scores = {}
        for r in case["reads"]:
            scores = {}
            # a read pair is one read: the alleles observed on both mates count (the mates never overlap here)
            for vi, v in enumerate(variants):
                seg = next((x for x in [r] + ([r["mate"]] if r.get("mate") else []) if x["start"] <= v["pos"] < x["end"]), None)
                if seg is None:
                    continue
                al = [h[vi] for h in case["haps"]]
                if len(set(al)) < 2:
                    continue
                obs = case["haps"][r["hap"]][vi]
                if seg["errors"].get(str(vi)):
                    obs = 1 - obs
                first = min(i for i, x in enumerate(case["sets"]) if x == case["sets"][vi])
                sid = variants[first]["pos"] + 1
                sc = scores.setdefault(sid, [0] * ploidy)
                for h in range(ploidy):
                    if al[h] == obs:
                        sc[h] += seg["quals"][str(vi)]
            own_scores[r["name"]] = scores
            if r.get("mate"):
                ctx.label("pair-" + r["mate"]["orientation"])
        # a read cloud is scored as one unit.  Cloud = reads of one barcode that carry variants and start within the distance
        # cut-off of the cloud's first processed read.  That is independent of the processing order exactly when the
        # single-linkage clusters (by start, threshold = cut-off) of a barcode have a diameter <= cut-off; barcodes for which
        # this fails are not judged.  Default cut-off 50000 > contig: one cloud per barcode.
        eff_cutoff = 50000 if cutoff is None else cutoff
        unit_of, ambiguous_bx, members = {}, set(), {}
        for r in case["reads"]:
            unit_of[r["name"]] = ("read", r["name"])
        if not ignore_bx:
            for bx in sorted({r["bx"] for r in case["reads"] if r.get("bx")}):
                carrying = sorted((r for r in case["reads"] if r.get("bx") == bx and own_scores[r["name"]]), key=lambda r: r["start"])
                clusters = []
                for r in carrying:
                    if clusters and r["start"] - clusters[-1][-1]["start"] <= eff_cutoff:
                        clusters[-1].append(r)
                    else:
                        clusters.append([r])
                if any(c[-1]["start"] - c[0]["start"] > eff_cutoff for c in clusters):
                    ambiguous_bx.add(bx)
                    ctx.label("cloud-grouping-order-dependent (not judged)")
                    continue
                for ci, c in enumerate(clusters):
                    members[(bx, ci)] = c
                    for r in c:
                        unit_of[r["name"]] = (bx, ci)
                if len(clusters) > 1:
                    ctx.label("barcode-split-into-%s-clouds" % (len(clusters) if len(clusters) < 3 else "3+"))
        unit_scores = {}
        for r in case["reads"]:
            u = unit_scores.setdefault(unit_of[r["name"]], {})
            for sid, sc in own_scores[r["name"]].items():
                tot = u.setdefault(sid, [0] * ploidy)
                for h in range(ploidy):
                    tot[h] += sc[h]

        def unit_decision(scores):
            """(HP, PS candidates) of a unit or None when it must stay untagged; 'any' when a tie between sets decides"""
            if not scores:
                return None
            best_overall = max(max(v) for v in scores.values())
            cands = [sid for sid, v in scores.items() if max(v) == best_overall]
            out = set()
            for sid in cands:
                sc = sorted(scores[sid], reverse=True)
                out.add((scores[sid].index(sc[0]) + 1, sid) if sc[0] != sc[1] else None)
            return out
        if ignore_bx:
            ctx.label("ignore-linked-read")
        if cutoff is not None:
            ctx.label("small-distance-cutoff")
        for r in case["reads"]:
            if r.get("bx") in ambiguous_bx and not ignore_bx:
                continue
            scores = unit_scores[unit_of[r["name"]]]
            in_cloud = (not ignore_bx) and bool(r.get("bx")) and sum(1 for x in case["reads"] if x.get("bx") == r["bx"]) > 1
            tags = res.get(r["name"], {})
            if in_cloud:
                ctx.label("read-in-cloud")
            if in_cloud and not own_scores[r["name"]]:
                # a barcode mate without variants inherits HP/PS (never PC) of the first assigned cloud of its barcode whose
                # first processed read starts within the cut-off; which member that is depends on the processing order, so:
                # allowed = decisions of clouds with SOME member in reach, required when ALL members of an assigned cloud are in reach
                allowed, required = set(), False
                for u, ms in members.items():
                    if u[0] != r["bx"]:
                        continue
                    dec = unit_decision(unit_scores[u])
                    assigned = {x for x in dec if x is not None} if dec else set()
                    near = [abs(m["start"] - r["start"]) <= eff_cutoff for m in ms]
                    if any(near):
                        allowed |= assigned
                    if all(near) and dec and None not in dec:
                        required = True
                if "PC" in tags:
                    ctx.violation("quality:cloud:pc-on-variant-free-read", "read %s covers no phased heterozygous variant but carries %r" % (r["name"], tags))
                elif tags and (tags.get("HP"), tags.get("PS")) not in allowed:
                    ctx.violation("quality:cloud:inherited-tags", "variant-free read %s (start %d, barcode %s, cut-off %d) carries %r; clouds in reach decide %r" % (
                        r["name"], r["start"], r["bx"], eff_cutoff, tags, sorted(allowed)))
                elif not tags and required:
                    ctx.violation("quality:cloud:not-inherited", "variant-free read %s (start %d, barcode %s, cut-off %d) is untagged although an assigned cloud lies within reach" % (
                        r["name"], r["start"], r["bx"], eff_cutoff))
                elif tags:
                    ctx.label("variant-free-read-inherits")
                    nt = True
                elif members and not allowed:
                    ctx.label("variant-free-read-out-of-reach-or-unassigned")
                continue
            if not scores:
                if tags:
                    ctx.violation("quality:tagged-without-variants", "read %s covers no phased heterozygous variant but carries %r" % (r["name"], tags))
                continue
            best_overall = max(max(v) for v in scores.values())
            cands = [sid for sid, v in scores.items() if max(v) == best_overall]
            if len(scores) > 1:
                nt = True
            if tags:
                if "PS" not in tags or "HP" not in tags:
                    ctx.violation("quality:partial-tags", "read %s carries %r" % (r["name"], tags))
                    continue
                sid = tags["PS"]
                if sid not in cands:
                    ctx.violation("quality:phase-set", "read %s tagged with PS %r, best scoring sets %r (scores %r)" % (r["name"], sid, cands, scores))
                    continue
                sc = sorted(scores[sid], reverse=True)
                top = [h for h in range(ploidy) if scores[sid][h] == sc[0]]
                if len(top) != 1 or sc[0] == sc[1]:
                    ctx.violation("quality:tie-tagged", "read %s tagged %r although haplotype scores %r tie" % (r["name"], tags, scores[sid]))
                elif tags["HP"] != top[0] + 1:
                    ctx.violation("quality:not-argmax", "read %s tagged HP=%r, scores %r" % (r["name"], tags["HP"], scores[sid]))
                elif tags.get("PC") != sc[0] - sc[1] and not (in_cloud and not own_scores[r["name"]]):
                    ctx.violation("quality:pc", "read %s PC=%r, expected %d (scores %r)" % (r["name"], tags.get("PC"), sc[0] - sc[1], scores[sid]))
                elif in_cloud:
                    nt = True
                    ctx.label("cloud-tagged")
            else:
                # untagged is right iff the (first) best set ties
                if len(cands) == 1:
                    sc = sorted(scores[cands[0]], reverse=True)
                    if sc[0] != sc[1]:
                        ctx.violation("quality:untagged", "read %s untagged although scores %r have a strict maximum" % (r["name"], scores[cands[0]]))
                    else:
                        nt = True
                        ctx.label("tie-untagged" + ("-cloud" if in_cloud else ""))
        ctx.nontrivial(nt)
        ctx.label("ploidy-%d" % ploidy)


PARTS = [ErrorFreePart(), QualityPart()]
