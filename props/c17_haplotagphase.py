"""C17 - haplotag followed by haplotagphase reproduces the phasing that tagged the reads."""
import contextlib, io, os
from hypothesis import strategies as st
import pysam

from vlib import genome as G, pipeline as P
from props.c10_haplotag import assign_sets, write_phased_vcf, set_label, run_tool as run_haplotag_tool

ID = "C17"
RULE = ("Histories model-phasing -> haplotag -> (partial) unphase -> haplotagphase: one sample, 1-2 contigs, well separated "
        "variants of all types, a known diploid phasing with 1-4 phase sets per contig occupying disjoint intervals, error-free "
        "reads that never overlap two sets (single and paired), planted homopolymer runs; the reads are tagged with the phased "
        "VCF (PS encoding), then a random subset of the phased variants (sometimes all, sometimes none) keeps its phase in the "
        "VCF handed to haplotagphase (default thresholds, reference given; --only-indels and --ignore-read-groups in a quarter of the cases each; a twelfth of the calls has a missing genotype). Oracle: every call phased in the output has the haplotype "
        "order of the original VCF and the phase set of the reads covering it; calls that were phased in the input keep GT and "
        "PS exactly; with --only-indels no SNV is newly phased; a call with a missing genotype is never phased. Non-trivial = >= 2 phase sets and >= 1 pre-phased variant kept in the input and >= 1 newly phased variant. "
        "Distinct = distinct generated case.")
ASSUMPTIONS = [
    "no read overlaps two different phase sets (the proviso of the property); thresholds at their defaults",
    "variants that haplotagphase leaves unphased (gap threshold, homopolymer filter, no tagged read) are not judged",
]


def gen(draw):
    c = P.gen_case(draw, nsamples=(1, 2), ncontigs=(1, 2), length=(400, 1000), depth=(1, 6), read_len=(60, 250), paired_share=20,
                   skip_share=0, clip_share=5, eqx_share=0)
    # plant homopolymer runs next to a few variants
    for contig in c["contigs"]:
        seq = list(contig["seq"])
        for v in c["variants"][contig["name"]]:
            if draw(st.integers(0, 9)) == 0 and G.vtype(v) == "snv":
                b = draw(st.sampled_from("ACGT"))
                n = draw(st.integers(8, 14))
                start = v["pos"] + 1
                if start + n < len(seq) - 5:
                    for i in range(start, start + n):
                        seq[i] = b
        contig["seq"] = "".join(seq)
        # re-derive REF alleles from the edited reference
        for v in c["variants"][contig["name"]]:
            L = len(v["ref"])
            newref = contig["seq"][v["pos"]:v["pos"] + L]
            if newref != v["ref"]:
                if len(v["alt"]) >= 1 and v["alt"][0] == v["ref"][0]:
                    v["alt"] = newref[0] + v["alt"][1:]
                v["ref"] = newref
                if v["alt"] == v["ref"]:
                    v["alt"] = ("A" if v["ref"][0] != "A" else "C") + v["ref"][1:]
    phasing = {s: {} for s in c["samples"]}
    keep = {s: {} for s in c["samples"]}
    for s in c["samples"]:
      for contig in c["contigs"]:
        name = contig["name"]
        n = len(c["variants"][name])
        sets = assign_sets(draw, n)
        phasing[s][name] = {"sets": sets, "unphased": [draw(st.integers(0, 9)) == 0 for _ in range(n)],
                            "swap": {str(k): draw(st.booleans()) for k in set(sets)}}
        mode = draw(st.sampled_from(["none", "some", "some", "all"]))
        keep[s][name] = [mode == "all" or (mode == "some" and draw(st.booleans())) for _ in range(n)]
        # drop reads of this sample that would overlap two of its phase sets
        bounds = {}
        for vi, k in enumerate(sets):
            p = c["variants"][name][vi]["pos"]
            lo, hi = bounds.get(k, (p, p))
            bounds[k] = (min(lo, p), max(hi, p + len(c["variants"][name][vi]["ref"])))
        def set_of(a, b):
            return {k for k, (lo, hi) in bounds.items() if a < hi and b > lo}
        kept = []
        for sp in c["read_specs"]:
            if sp["chrom"] != name or sp["sample"] != s:
                kept.append(sp)
                continue
            segs = list(sp["segments"]) + ([sp["pair"]] if "pair" in sp else [])
            touched = set()
            for a, b in segs:
                touched |= set_of(a, b)
            if len(touched) <= 1:
                kept.append(sp)
        c["read_specs"] = kept
    c["phasing"] = phasing
    c["keep"] = keep
    # a few calls with a missing genotype (in every VCF of the history)
    c["missing_gt"] = {contig["name"]: [vi for vi in range(len(c["variants"][contig["name"]])) if draw(st.integers(0, 11)) == 0]
                       for contig in c["contigs"]}
    c["enc"] = "PS"
    # phase set labels: the position of the first variant (as whatshap phase writes them), of the last one, or unrelated numbers
    c["ps_label"] = draw(st.sampled_from(["first", "first", "last", "arbitrary"]))
    c["hp_opts"] = {"only_indels": draw(st.integers(0, 3)) == 0, "ignore_read_groups": len(c["samples"]) == 1 and draw(st.integers(0, 3)) == 0}
    c["tag_reads_of_sets"] = draw(st.sampled_from(["all", "all", "first-set-only"]))
    # the reads may carry HP/PS/PC from an earlier haplotag run against a different phasing (other set ids, other haplotypes)
    c["pretagged"] = draw(st.integers(0, 2)) == 0
    return c


def read_calls(path, sample):
    out = {}
    with pysam.VariantFile(path) as vf:
        for rec in vf:
            call = rec.samples[sample]
            out[(rec.chrom, rec.start)] = (tuple(call["GT"]), bool(call.phased), call["PS"] if "PS" in rec.format.keys() else None)
    return out


class PipelinePart:
    name = "pipeline"
    budget = {"quick": 3200, "thorough": 40000}

    def strategy(self, tier):
        @st.composite
        def case(draw):
            return gen(draw)
        return case()

    def run(self, case, ctx):
        from whatshap.cli.haplotagphase import run_haplotagphase
        d = ctx.tmp()
        reads = G.render_specs(case, case["read_specs"])
        if not reads:
            return
        ref = G.write_fasta(case["contigs"], os.path.join(d, "ref.fa"))
        vcfgz, truth = write_phased_vcf(case, os.path.join(d, "phased.vcf"))
        if case.get("pretagged"):
            for i, r in enumerate(reads):
                r["tags"] = dict(r.get("tags") or {}, HP=1 + i % 2, PS=7 + i % 3, PC=50)
            ctx.label("reads-carry-tags-of-an-earlier-run")
        bam = G.write_bam(case, reads, os.path.join(d, "reads.bam"))
        tagged = os.path.join(d, "tagged.bam")
        run_haplotag_tool(vcfgz, bam, tagged, ref, {})
        if case["tag_reads_of_sets"] == "first-set-only":
            # keep tags only on reads of the first phase set of each contig (others lose HP/PS): models partial tagging
            firsts = {}
            for s in case["samples"]:
                for (cname, vi), (sid, order) in sorted(truth.get(s, {}).items()):
                    firsts.setdefault((s, cname), sid)      # label of the leftmost phased variant's set
            tmp = tagged + ".tmp.bam"
            with pysam.AlignmentFile(tagged) as f, pysam.AlignmentFile(tmp, "wb", template=f) as o:
                names = f.references
                for a in f.fetch(until_eof=True):
                    smp = a.get_tag("RG")[3:] if a.has_tag("RG") else None
                    if a.has_tag("PS") and not a.is_unmapped and a.get_tag("PS") != firsts.get((smp, names[a.reference_id])):
                        for t in ("HP", "PS", "PC"):
                            a.set_tag(t, None)
                    o.write(a)
            os.replace(tmp, tagged)
        pysam.index(tagged)
        # input VCF of haplotagphase: only the kept variants stay phased
        case2 = dict(case)
        ph2 = {s: {} for s in case["samples"]}
        for s in case["samples"]:
            for contig in case["contigs"]:
                name = contig["name"]
                p = case["phasing"][s][name]
                ph2[s][name] = {"sets": p["sets"], "swap": p["swap"],
                                # (older replay files keep one list per contig for their single sample)
                                "unphased": [u or not k for u, k in zip(p["unphased"], case["keep"][s][name] if s in case["keep"] else case["keep"][name])]}
        case2["phasing"] = ph2
        part_vcf, kept_truth = write_phased_vcf(case2, os.path.join(d, "partial.vcf"))
        out = os.path.join(d, "out.vcf")
        buf = io.StringIO()
        with contextlib.redirect_stdout(buf), contextlib.redirect_stderr(buf):
            with open(out, "w") as fo:
                run_haplotagphase(variant_file=part_vcf, alignment_file=tagged, output=fo, reference=ref, write_command_line_header=False,
                                  **case.get("hp_opts", {}))
        P.check_readable(out, "haplotagphase")
        all_tagged = {}
        with pysam.AlignmentFile(tagged) as f:
            names = f.references
            for a in f.fetch(until_eof=True):
                if a.has_tag("PS") and not a.is_unmapped:
                    smp = a.get_tag("RG")[3:] if a.has_tag("RG") else None
                    all_tagged.setdefault((smp, names[a.reference_id]), []).append((a.reference_start, a.reference_end, a.get_tag("PS")))
        newly = kept = 0
        nsets = 0
        if len(case["samples"]) > 1:
            ctx.label("two-samples")
        for s in case["samples"]:
          before = read_calls(part_vcf, s)
          after = read_calls(out, s)
          orig = read_calls(vcfgz, s)
          tagged_sets = {cn: v for (smp, cn), v in all_tagged.items() if smp == s or case.get("hp_opts", {}).get("ignore_read_groups")}
          nsets = max(nsets, len({sid for sid, _ in truth.get(s, {}).values()}))
          for key, (gt, ph, ps) in after.items():
            b = before[key]
            if any(a is None for a in gt):
                if ph:
                    ctx.violation("pipeline:missing-genotype-phased", "%s:%d has a missing genotype but is phased %r" % (key[0], key[1] + 1, gt))
                continue
            if b[1]:
                kept += 1
                if (gt, ph, ps) != b:
                    sig = "pipeline:prephased-altered"
                    covered = any(st_ <= key[1] < en for st_, en, _ in tagged_sets.get(key[0], []))
                    if not ph and not covered:
                        sig += ":unphased-without-votes"
                    ctx.violation(sig, "%s:%d was phased in the input of haplotagphase as %r and comes out as %r (covered by a tagged read: %r)" % (
                        key[0], key[1] + 1, b, (gt, ph, ps), covered))
                continue
            if ph:
                newly += 1
                o = orig[key]
                if case.get("hp_opts", {}).get("only_indels"):
                    v = next(v for v in case["variants"][key[0]] if v["pos"] == key[1])
                    if len(v["ref"]) == 1 and len(v["alt"]) == 1:
                        ctx.violation("pipeline:only-indels-phased-snv", "%s:%d is an SNV, newly phased although --only-indels was given" % (key[0], key[1] + 1))
                if not o[1]:
                    # the original VCF left this variant unphased; reads of the haplotypes still determine it: compare with truth
                    vi = next(i for i, v in enumerate(case["variants"][key[0]]) if v["pos"] == key[1])
                    k = case["phasing"][s][key[0]]["sets"][vi]
                    order = [1, 0] if case["phasing"][s][key[0]]["swap"].get(str(k)) else [0, 1]
                    want_gt = tuple(case["haps"][s][key[0]][h][vi] for h in order)
                    want_ps = set_label(case, case["variants"][key[0]], case["phasing"][s][key[0]]["sets"], k)
                else:
                    want_gt, want_ps = o[0], o[2]
                if gt != want_gt:
                    ctx.violation("pipeline:haplotype-order", "%s:%d phased as %r, the tagging phasing has %r" % (key[0], key[1] + 1, gt, want_gt))
                if ps != want_ps:
                    ctx.violation("pipeline:phase-set", "%s:%d phased into set %r, reads covering it were tagged with set %r" % (key[0], key[1] + 1, ps, want_ps))
        ctx.nontrivial(nsets >= 2 and kept >= 1 and newly >= 1)
        ctx.label("kept-%s" % ("yes" if kept else "no"))
        ctx.label("tagging-" + case["tag_reads_of_sets"])
        for k, v in case.get("hp_opts", {}).items():
            if v:
                ctx.label("option-" + k)
        if newly:
            ctx.label("newly-phased")


PARTS = [PipelinePart()]
