"""C02 - read-based phasing of error-free reads reproduces the true haplotypes."""
import os
from hypothesis import strategies as st

from vlib import genome as G, pipeline as P

ID = "C02"
RULE = ("Pipeline cases: 1-2 contigs (400-1200 bp), well separated variants of all four types (gap >= 30 bp), 1-3 samples "
        "with their own read groups and true diploid haplotypes; reads are error-free copies of a random haplotype "
        "(60-350 bp, single or paired, soft clips, =/X CIGARs; boundaries never cut a variant, except that a sixth of the reads "
        "end or start inside the REF allele of a deletion/MNP their haplotype does not carry), depth 2-25 with "
        "--internal-downsampling drawn from 2..15 so that the cap binds; options --tag PS|HP, --only-snvs, --sample and "
        "--chromosome subsets, --mapping-quality 20/30 with chimeric decoy alignments below the threshold or flagged supplementary (must not reach the solver); in a quarter of the cases a VCF with the true phase of a random subset of the variants is a second phase "
        "input (pseudo reads, preferred by read selection); in a quarter of the cases the reads are split over two alignment files with coinciding read names. Oracle: for every selected sample and every phase set of the output (decoded with pysam), "
        "the phased alleles equal the true haplotype pair or its swap, one choice per phase set; in the traced solver instances every "
        "read allele equals the allele of the haplotype the read was copied from, every read (pair) carries all heterozygous "
        "variants one of its alignments fully covers, and the optimal cost is 0. Non-trivial = at least "
        "one phase set with >= 2 variants. Distinct = distinct generated case.")
ASSUMPTIONS = [
    "default exact algorithm, trusted genotypes, with reference; --distrust-genotypes / --merge-reads / other algorithms are outside the stated domain",
    "variants are separated by more than the re-alignment window and no read boundary cuts a variant, except inside the REF allele of a deletion/MNP on a REF-carrying haplotype (>= 2 REF bases kept at a read end), where REF is the only allele at distance 0",
]


def gen(draw):
    case = P.gen_case(draw, nsamples=(1, 3), depth=(2, 25), paired_share=25, skip_share=12, clip_share=15, eqx_share=10, unsorted_gt_share=15)
    samples = case["samples"]
    chroms = [c["name"] for c in case["contigs"]]
    opts = {"tag": draw(st.sampled_from(["PS", "PS", "HP"])), "only_snvs": draw(st.integers(0, 4)) == 0,
            "samples": draw(st.sampled_from([None, None] + [[s] for s in samples])),
            "chromosomes": draw(st.sampled_from([None, None] + [[c] for c in chroms])),
            "max_coverage": draw(st.sampled_from([2, 3, 4, 5, 8, 15, 15]))}
    case["opts"] = opts
    # an additional phase input: a VCF carrying the true phase of a random subset of the variants (one set per sample and contig)
    case["phased_vcf_input"] = draw(st.integers(0, 3)) == 0
    if case["phased_vcf_input"]:
        case["phased_vcf_subset"] = {s: {c["name"]: [vi for vi in range(len(case["variants"][c["name"]])) if draw(st.booleans())]
                                         for c in case["contigs"]} for s in samples}
        case["phased_vcf_enc_hp"] = draw(st.booleans())
    # the reads may arrive in two alignment files whose read names coincide (names need only be unique within a file)
    case["two_files"] = draw(st.integers(0, 3)) == 0
    # decoys: alignments that the documented options exclude from the reads given to the phasing (--mapping-quality: reads
    # below it are discarded; supplementary alignments are used only with --use-supplementary); they are chimeras of the
    # two haplotypes, so using any of them would contradict the error-free reads
    case["mapq_threshold"] = draw(st.sampled_from([20, 20, 30]))
    decoys = []
    for sp in case["read_specs"]:
        if "pair" in sp or draw(st.integers(0, 9)) != 0:
            continue
        n = len(case["variants"][sp["chrom"]])
        H = case["haps"][sp["sample"]][sp["chrom"]]
        d = {"name": sp["name"] + "_decoy", "sample": sp["sample"], "chrom": sp["chrom"], "hap": sp["hap"], "segments": [list(x) for x in sp["segments"]],
             "alleles": [H[(vi + sp["hap"]) % 2][vi] for vi in range(n)], "decoy": draw(st.sampled_from(["mapq", "mapq", "supplementary"]))}
        if d["decoy"] == "mapq":
            d["mapq"] = draw(st.sampled_from([0, 5, 19])) if case["mapq_threshold"] == 20 else draw(st.sampled_from([0, 20, 29]))
        else:
            d["flag"] = 2048
        decoys.append(d)
    case["read_specs"] = case["read_specs"] + decoys
    # single-sample input whose BAM has no read groups at all: --ignore-read-groups
    case["no_read_groups"] = len(samples) == 1 and draw(st.integers(0, 4)) == 0
    # reads of a REF-carrying haplotype may end (after >= 2 bases) or start inside the REF allele of a deletion / MNP
    for sp in case["read_specs"]:
        if draw(st.integers(0, 5)) != 0:
            continue
        seg = sp["pair"] if "pair" in sp else sp["segments"][-1]
        hap = case["haps"][sp["sample"]][sp["chrom"]][sp["hap"]]
        cands = [(vi, v) for vi, v in enumerate(case["variants"][sp["chrom"]])
                 if len(v["ref"]) >= 2 and hap[vi] == 0 and seg[0] + 6 <= v["pos"] and v["pos"] + len(v["ref"]) <= seg[1]]
        if cands:
            vi, v = cands[draw(st.integers(0, len(cands) - 1))]
            seg[1] = v["pos"] + draw(st.integers(2, len(v["ref"])))
            sp["cut_end_in_ref"] = vi
            continue
        seg = sp["segments"][0]
        cands = [(vi, v) for vi, v in enumerate(case["variants"][sp["chrom"]])
                 if len(v["ref"]) >= 2 and hap[vi] == 0 and seg[0] <= v["pos"] and v["pos"] + len(v["ref"]) + 6 <= seg[1]]
        if cands:
            vi, v = cands[draw(st.integers(0, len(cands) - 1))]
            seg[0] = v["pos"] + draw(st.integers(1, len(v["ref"]) - 1))
            sp["cut_start_in_ref"] = vi
    return case


def check_read_alleles(case, trace, ctx, sigprefix="truth", reads=None, only_snvs=False):
    """every allele the solver saw on a read is the allele of the haplotype the read was copied from; the optimum costs nothing;
    a read (pair) used by the solver carries every heterozygous variant that one of its alignments fully covers"""
    spec = {sp["name"]: sp for sp in case["read_specs"]}
    records = {}
    for r in reads or []:
        records.setdefault(r["name"], []).append(r)
    index = {c["name"]: {v["pos"]: vi for vi, v in enumerate(case["variants"][c["name"]])} for c in case["contigs"]}
    cut_seen = False
    for t in trace:
        for r in t["reads"]:
            sp = spec.get(r["name"])
            if sp is None:
                ctx.violation(sigprefix + ":unknown-read", "read %r in the solver instance was never written" % r["name"])
                continue
            if sp.get("decoy"):
                ctx.violation(sigprefix + ":filtered-alignment-used:" + sp["decoy"], "alignment %s (%s, mapq %r) entered the solver although the reader has to ignore it" % (
                    r["name"], sp["decoy"], sp.get("mapq", 60)))
                continue
            hap = case["haps"][sp["sample"]][sp["chrom"]][sp["hap"]]
            if r["name"] in records:
                seen = {pos for pos, _, _ in r["variants"]}
                both = case["haps"][sp["sample"]][sp["chrom"]]
                for vi, v in enumerate(case["variants"][sp["chrom"]]):
                    if both[0][vi] == both[1][vi] or (only_snvs and G.vtype(v) != "snv") or vi in (sp.get("cut_end_in_ref"), sp.get("cut_start_in_ref")):
                        continue
                    classes = [G.coverage_class(x, v) for x in records[r["name"]]]
                    if "full" in classes and "partial" not in classes and v["pos"] not in seen:
                        ctx.violation(sigprefix + ":read-variant-missing:" + ("pair" if len(classes) > 1 else "single"),
                                      "read %s fully covers the heterozygous %s at %s:%d (coverage of its alignments: %r) but entered the solver without an allele there" % (
                                          r["name"], G.vtype(v), sp["chrom"], v["pos"] + 1, classes))
                if len(records[r["name"]]) > 1:
                    ctx.label("pair-in-solver-instance")
            for pos, allele, q in r["variants"]:
                vi = index[t["chromosome"]].get(pos)
                if vi is None:
                    continue
                if sp.get("cut_end_in_ref") == vi or sp.get("cut_start_in_ref") == vi:
                    cut_seen = True
                if allele != hap[vi]:
                    v = case["variants"][t["chromosome"]][vi]
                    ctx.violation(sigprefix + ":read-allele:" + G.vtype(v) + (":cut" if vi in (sp.get("cut_end_in_ref"), sp.get("cut_start_in_ref")) else ""),
                                  "read %s is an error-free copy of haplotype %d of %s (allele %d at %s:%d) but entered the solver with allele %d" % (
                                      r["name"], sp["hap"], sp["sample"], hap[vi], t["chromosome"], pos + 1, allele))
        if t["cost"] != 0:
            ctx.violation(sigprefix + ":nonzero-cost", "error-free reads, yet the optimal cost on %s family %r is %r" % (t["chromosome"], t["family"], t["cost"]))
    return cut_seen


def check_truth(case, out, ctx, samples, chroms, only_snvs, sigprefix="truth"):
    dec = P.decode_phasing(out)
    index = {c["name"]: {v["pos"]: vi for vi, v in enumerate(case["variants"][c["name"]])} for c in case["contigs"]}
    sets_ge2 = 0
    types_in_sets = set()
    for s in case["samples"]:
        calls = dec.get(s, {})
        if s not in samples:
            if calls:
                ctx.violation(sigprefix + ":unselected-sample-phased", "sample %s was not selected but has phased calls %r" % (s, sorted(calls)[:3]))
            continue
        groups = {}
        for (chrom, pos), (al, sid, enc) in calls.items():
            if chrom not in chroms:
                ctx.violation(sigprefix + ":unselected-chromosome-phased", "%s:%d phased although the chromosome was not selected" % (chrom, pos + 1))
                continue
            vi = index[chrom].get(pos)
            if vi is None:
                ctx.violation(sigprefix + ":unknown-variant", "%s:%d" % (chrom, pos + 1))
                continue
            v = case["variants"][chrom][vi]
            if only_snvs and G.vtype(v) != "snv":
                ctx.violation(sigprefix + ":non-snv-phased", "%s:%d %s phased with --only-snvs" % (chrom, pos + 1, G.vtype(v)))
            h0 = case["haps"][s][chrom][0][vi]
            h1 = case["haps"][s][chrom][1][vi]
            if tuple(al) == (h0, h1):
                o = 0
            elif tuple(al) == (h1, h0):
                o = 1
            else:
                ctx.violation(sigprefix + ":genotype-changed", "sample %s %s:%d phased as %r, true alleles %r" % (s, chrom, pos + 1, al, (h0, h1)))
                continue
            groups.setdefault((chrom, sid), []).append((pos, o, G.vtype(v)))
        for (chrom, sid), members in groups.items():
            members.sort()
            if len(members) >= 2:
                sets_ge2 += 1
                types_in_sets.update(t for _, _, t in members)
            if len({o for _, o, _ in members}) > 1:
                ctx.violation(sigprefix + ":wrong-phase", "sample %s %s phase set %s: orientations relative to the truth %r (positions, orientation, type)" % (
                    s, chrom, sid, [(p + 1, o, t) for p, o, t in members]))
    return sets_ge2, types_in_sets


class TruthPart:
    name = "truth"
    budget = {"quick": 1600, "thorough": 40000}

    def strategy(self, tier):
        @st.composite
        def case(draw):
            return gen(draw)
        return case()

    def run(self, case, ctx):
        d = ctx.tmp()
        paths, reads = P.materialise(case, d)
        if "bam" not in paths:
            return
        o = case["opts"]
        bams = [paths["bam"]]
        file_of = {}
        if case.get("two_files"):
            # every second template goes to a second file and takes the name of the template before it
            names = []
            for r in reads:
                if r["name"] not in names:
                    names.append(r["name"])
            alias = {n: (names[i - 1] if i % 2 else n) for i, n in enumerate(names)}
            first = [r for r in reads if alias[r["name"]] == r["name"]]
            second = [dict(r, name=alias[r["name"]]) for r in reads if alias[r["name"]] != r["name"]]
            if first and second:
                for r in reads:
                    file_of[r["name"]] = (0 if alias[r["name"]] == r["name"] else 1, alias[r["name"]])
                bams = [G.write_bam(case, first, os.path.join(d, "reads_a.bam")), G.write_bam(case, second, os.path.join(d, "reads_b.bam"))]
                ctx.label("two-files-with-colliding-names")
        kw = {}
        if o["samples"]:
            kw["samples"] = list(o["samples"])
        if o["chromosomes"]:
            kw["chromosomes"] = list(o["chromosomes"])
        if case.get("no_read_groups") and not case.get("two_files"):
            bams = [G.write_bam(case, reads, os.path.join(d, "reads_norg.bam"), read_groups=False)]
            kw["ignore_read_groups"] = True
            ctx.label("no-read-groups")
        if case.get("mapq_threshold", 20) != 20:
            kw["mapping_quality"] = case["mapq_threshold"]
        if any(sp.get("decoy") for sp in case["read_specs"]):
            ctx.label("decoy-alignments")
        inputs = list(bams)
        if case.get("phased_vcf_input"):
            ph = {s: {cn: {vi: 7 for vi in vis} for cn, vis in per.items()} for s, per in case["phased_vcf_subset"].items()}
            inputs.append(G.write_vcf(case, os.path.join(d, "prior_phase.vcf"), phased=ph))
            ctx.label("phased-vcf-as-additional-input")
        out, trace = P.run_phase(d, paths["vcf"], inputs, reference=paths["ref"], tag=o["tag"], only_snvs=o["only_snvs"],
                                 max_coverage=o["max_coverage"], **kw)
        # pseudo reads made from the phased VCF are not reads of the BAM
        for t in trace:
            t["reads"] = [r for r in t["reads"] if r["source_id"] < len(bams)]
        if file_of:
            # give the solver's reads their generated names back: (file, name in that file) -> template
            back = {v: k for k, v in file_of.items()}
            for t in trace:
                for r in t["reads"]:
                    r["name"] = back.get((r["source_id"], r["name"]), r["name"])
        samples = o["samples"] or case["samples"]
        chroms = o["chromosomes"] or [c["name"] for c in case["contigs"]]
        n, types = check_truth(case, out, ctx, samples, chroms, o["only_snvs"])
        if check_read_alleles(case, trace, ctx, reads=reads, only_snvs=o["only_snvs"]):
            ctx.label("allele-from-read-cut-inside-REF")
        ctx.nontrivial(n >= 1)
        ctx.label("tag-" + o["tag"])
        for t in types:
            ctx.label("set-with-" + t)
        if len(case["samples"]) > 1:
            ctx.label("multi-sample")
        # depth above the cap somewhere? (from the trace: per family the cap is reached)
        for t in trace:
            if t["reads"]:
                ctx.unit("solver-instances")
            if any(r for r in t["reads"]):
                pos = t["accessible_positions"]
                idx = {p: i for i, p in enumerate(pos)}
                cov = [0] * len(pos)
                for r in t["reads"]:
                    a, b = idx[r["variants"][0][0]], idx[r["variants"][-1][0]]
                    for i in range(a, b + 1):
                        cov[i] += 1
                if cov and max(cov) >= t["max_coverage"]:
                    ctx.label("cap-binding")
                    break
        if any(t["cost"] for t in trace):
            ctx.label("nonzero-optimal-cost")


PARTS = [TruthPart()]
