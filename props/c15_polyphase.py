"""C15 - polyphase output obeys the input genotypes and forms contiguous blocks."""
import contextlib, io, os
from hypothesis import strategies as st
import pysam

from vlib import genome as G, pipeline as P, vcfmodel as vm

ID = "C15"
RULE = ("Polyploid pipeline cases: ploidy 2-6 (mostly 3-4), one contig with 6-25 well separated variants (mostly SNVs, some "
        "indels, a share of tri-allelic SNVs), k true haplotypes with collapsed (identical) stretches, reads that "
        "(in a quarter of the cases partly paired-end) are exact copies of a haplotype at uneven depth, optionally with substitution "
        "errors at SNV sites (wrong allele or a base matching no allele); options -B 0..5, "
        "--use-prephasing on a partially phased input (ploidy <= 5), --tag PS/HP, --only-snvs, --min-overlap, threads 1, and in an eighth of "
        "the cases --distrust-genotypes (the genotype statement is then suspended for processed calls: a changed genotype must be "
        "a complete genotype of the same ploidy over the record's alleles). Oracle: every phased genotype lists exactly the "
        "alleles of the input genotype with multiplicities and only heterozygous calls are phased; everything else in the file "
        "is unchanged (htslib diff); per sample the PS labels form contiguous runs in position order and each id is the "
        "1-based position of a read-covered heterozygous variant lying after the previous run's last phased variant and not "
        "after the run's first phased variant. Non-trivial = >= 2 blocks, or a multi-allelic phased call, or a collapsed "
        "region. Distinct = distinct generated case.")
ASSUMPTIONS = [
    "--use-prephasing is exercised for ploidy 2-5 only: at ploidy 6 the tool's own ILP (CBC) needs minutes for a single 12-variant case, which no case budget can absorb",
    "the check judges validity of the heuristic's output, not its quality",
    "read-covered = covered by a read that fully covers at least two heterozygous variants (the tool's own filter, recomputed from the generator's read geometry)",
]


def gen(draw):
    ploidy = draw(st.sampled_from([2, 3, 3, 3, 4, 4, 4, 5, 6]))
    L = draw(st.integers(400, 1100))
    seq = G.random_seq(draw(st.integers(0, 10 ** 6)), L)
    variants = G.gen_contig_variants(draw, seq, mingap=25, maxgap=60, kinds=("snv", "snv", "snv", "snv", "ins", "del"), maxlen=3, maxvars=25)
    for v in variants:
        if G.vtype(v) == "snv" and draw(st.integers(0, 7)) == 0:
            v["alt2"] = next(b for b in "ACGT" if b not in (v["ref"], v["alt"]))
    n = len(variants)
    haps = [[0] * n for _ in range(ploidy)]
    for vi, v in enumerate(variants):
        amax = 2 if v.get("alt2") else 1
        for h in range(ploidy):
            haps[h][vi] = draw(st.integers(0, amax))
        if len({haps[h][vi] for h in range(ploidy)}) == 1 and draw(st.integers(0, 5)) > 0:
            haps[draw(st.integers(0, ploidy - 1))][vi] = (haps[0][vi] + 1) % (amax + 1)
    # collapsed stretch: two haplotypes identical over a window
    collapsed = False
    if ploidy >= 3 and n >= 4 and draw(st.booleans()):
        a, b = draw(st.integers(0, n - 2)), 0
        b = draw(st.integers(a + 1, n))
        h1, h2 = 0, 1
        for vi in range(a, b):
            haps[h2][vi] = haps[h1][vi]
        collapsed = True
    case = {"contigs": [{"name": "chr1", "seq": seq}], "variants": {"chr1": variants}, "samples": ["s"], "haps": {"s": {"chr1": haps}},
            "ploidy": ploidy, "collapsed": collapsed}
    specs = []
    depth = draw(st.sampled_from([2, 4, 8, 12]))
    nreads = max(3, int(depth * ploidy * L / 200 / 2))
    nreads = min(nreads, 120)
    noisy = draw(st.integers(0, 2)) == 0
    paired = draw(st.integers(0, 3)) == 0
    for i in range(nreads):
        h = draw(st.integers(0, ploidy - 1))
        s = draw(st.integers(0, L - 30))
        e = min(L, s + draw(st.integers(60, 320)))
        sp = {"name": "r%d" % i, "sample": "s", "chrom": "chr1", "hap": h, "segments": P.snap_segments([[s, e]], variants, L)}
        if noisy and draw(st.integers(0, 3)) == 0:
            sp["err"] = draw(st.integers(0, 10 ** 6))
        if paired and draw(st.integers(0, 2)) == 0 and e + 40 < L:
            s2 = e + draw(st.integers(10, 150))
            p2 = P.snap_segments([[s2, min(L, s2 + draw(st.integers(50, 200)))]], variants, L)
            if p2 and sp["segments"] and p2[0][0] > sp["segments"][-1][1]:
                sp["pair"] = p2[0]
        if sp["segments"]:
            specs.append(sp)
    case["read_specs"] = specs
    # a second sample without reads (sometimes excluded with --sample), missing genotypes, a read-free second contig
    case["second_sample"] = draw(st.sampled_from([None, None, "selected", "unselected"]))
    case["missing"] = [vi for vi in range(n) if draw(st.integers(0, 14)) == 0] if draw(st.integers(0, 2)) == 0 else []
    case["second_contig"] = draw(st.sampled_from([None, None, "selected", "unselected"]))
    # genotyping errors at tri-allelic sites: the VCF genotype lacks an allele that the reads of a haplotype carry
    case["gt_errors"] = {}
    for vi, v in enumerate(variants):
        al = [h[vi] for h in haps]
        if v.get("alt2") and 2 in al and draw(st.integers(0, 2)) == 0:
            new = [a if a != 2 else draw(st.integers(0, 1)) for a in al]
            if len(set(new)) > 1:
                case["gt_errors"][str(vi)] = new
    case["tag"] = draw(st.sampled_from(["PS", "PS", "HP"]))
    case["only_snvs"] = draw(st.integers(0, 5)) == 0
    case["min_overlap"] = draw(st.sampled_from([2, 2, 2, 3]))
    # --distrust-genotypes: the genotype statement of the property is suspended for the processed calls (they may be
    # re-genotyped), everything else (pass-through, only heterozygous calls phased, block structure) is judged as before
    case["distrust"] = draw(st.integers(0, 7)) == 0
    case["opts"] = {"B": draw(st.sampled_from([0, 1, 2, 3, 4, 4, 5])), # the ILP behind --use-prephasing takes minutes per case at ploidy 6: drawn for ploidy <= 5 only
                    "prephase": ploidy <= 5 and draw(st.integers(0, 5 if ploidy == 5 else 3)) == 0}
    return case


def apply_errors(case, reads):
    """substitution errors at SNV sites of reads that carry an 'err' seed"""
    import random
    variants = case["variants"]["chr1"]
    for r in reads:
        seed = r["spec"].get("err")
        if seed is None or "N" in r["cigar"] or "I" in r["cigar"] or "D" in r["cigar"] or "S" in r["cigar"]:
            continue
        rng = random.Random(seed)
        seq = list(r["seq"])
        for v in variants:
            if G.vtype(v) == "snv" and r["pos"] <= v["pos"] < r["pos"] + len(seq) and rng.random() < 0.3:
                # a wrong allele, or a base that matches no allele (the read then spans the variant without an allele)
                third = next(b for b in "ACGT" if b not in (v["ref"], v["alt"], v.get("alt2")))
                seq[v["pos"] - r["pos"]] = rng.choice([v["ref"], v["alt"], third, third])
        r["seq"] = "".join(seq)
    return reads


class PolyphasePart:
    name = "polyphase"
    budget = {"quick": 4800, "thorough": 60000}

    def strategy(self, tier):
        @st.composite
        def case(draw):
            return gen(draw)
        return case()

    def run(self, case, ctx):
        from whatshap.cli.polyphase import run_polyphase
        d = ctx.tmp()
        ploidy = case["ploidy"]
        variants = case["variants"]["chr1"]
        haps = case["haps"]["s"]["chr1"]
        reads = apply_errors(case, G.render_specs(case, case["read_specs"]))
        if not reads:
            return
        ref = G.write_fasta(case["contigs"], os.path.join(d, "ref.fa"))
        phased = None
        o = case["opts"]
        if o["prephase"]:
            # a partially phased input: every third heterozygous variant in one set, in true haplotype order
            sid = None
            ph = {}
            for vi in range(len(variants)):
                if len({h[vi] for h in haps}) > 1 and vi % 3 == 0:
                    sid = variants[vi]["pos"] + 1 if sid is None else sid
                    ph[vi] = sid
            phased = {"s": {"chr1": ph}}
        kw = {}
        wcase = case
        if not phased and (case.get("second_sample") or case.get("missing") or case.get("second_contig") or case.get("gt_errors")):
            # decorated input: written from explicit genotype strings
            wcase = dict(case)
            wcase["samples"] = ["s"] + (["t"] if case.get("second_sample") else [])
            wcase["contigs"] = list(case["contigs"])
            wcase["variants"] = dict(case["variants"])
            gts = {"s": {"chr1": [G.gt_of(haps, vi) for vi in range(len(variants))]}}
            for vi, new in case.get("gt_errors", {}).items():
                gts["s"]["chr1"][int(vi)] = "/".join(map(str, sorted(new)))
                ctx.label("genotype-lacks-an-allele-of-the-reads")
            for vi in case.get("missing", []):
                gts["s"]["chr1"][vi] = "/".join(["."] * ploidy)
            if case.get("second_sample"):
                gts["t"] = {"chr1": [G.gt_of(haps[::-1], vi) for vi in range(len(variants))]}
                if case["second_sample"] == "unselected":
                    kw["samples"] = ["s"]
            if case.get("second_contig"):
                wcase["contigs"].append({"name": "chr2", "seq": case["contigs"][0]["seq"][:120]})
                wcase["variants"]["chr2"] = [{"pos": 30, "ref": case["contigs"][0]["seq"][30], "alt": "A" if case["contigs"][0]["seq"][30] != "A" else "C"},
                                             {"pos": 70, "ref": case["contigs"][0]["seq"][70], "alt": "A" if case["contigs"][0]["seq"][70] != "A" else "C"}]
                het = "/".join(["0"] * (ploidy - 1) + ["1"])
                for smp in wcase["samples"]:
                    gts[smp]["chr2"] = [het, het]
                if case["second_contig"] == "unselected":
                    kw["chromosomes"] = ["chr1"]
            vcf = G.write_vcf(wcase, os.path.join(d, "in.vcf"), gts=gts)
            ref = G.write_fasta(wcase["contigs"], os.path.join(d, "ref.fa"))
            ctx.label("decorated-input")
        else:
            vcf = G.write_vcf(case, os.path.join(d, "in.vcf"), phased=phased)
        bam = G.write_bam(wcase, reads, os.path.join(d, "reads.bam"))
        out = os.path.join(d, "out.vcf")
        buf = io.StringIO()
        with contextlib.redirect_stdout(buf), contextlib.redirect_stderr(buf):
            with open(out, "w") as fo:
                run_polyphase([bam], vcf, ploidy, reference=ref, output=fo, block_cut_sensitivity=o["B"], threads=1,
                              use_prephasing=o["prephase"], write_command_line_header=False, tag=case.get("tag", "PS"),
                              only_snvs=bool(case.get("only_snvs")), min_overlap=case.get("min_overlap", 2), distrust_genotypes=bool(case.get("distrust")), **kw)
        P.check_readable(out, "polyphase")
        ha, a = vm.read_vcf(vcf)
        hb, b = vm.read_vcf(out)
        if case.get("tag") == "HP":
            # the tool's HP encoding: GT stays unphased, HP has one 'set-(allele + 1)' entry per haplotype; bring it into the
            # form the rest of the oracle reads (phased flag, PS, alleles in haplotype order)
            for y in b:
                for c in y["samples"].values():
                    hp = c["fmt"].get("HP")
                    if hp in (None, ".", (".",)) or c["GT"] is None:
                        continue
                    hp = hp if isinstance(hp, (tuple, list)) else str(hp).split(",")
                    try:
                        ids = [str(x).split("-") for x in hp]
                        sid = {int(i[0]) for i in ids}
                        order = [int(i[1]) - 1 for i in ids]
                    except (ValueError, IndexError):
                        ctx.violation("polyphase:hp-syntax", "%s:%d HP value %r" % (y["chrom"], y["pos"], hp))
                        continue
                    if len(sid) != 1 or len(order) != len(c["GT"]) or min(order) < 0:
                        ctx.violation("polyphase:hp-syntax", "%s:%d HP value %r for GT %r" % (y["chrom"], y["pos"], hp, c["GT"]))
                        continue
                    c["GT"], c["phased"] = tuple(order), True
                    c["fmt"]["PS"] = sid.pop()
            ctx.label("tag-HP")
        if case.get("only_snvs"):
            ctx.label("only-snvs")
            for x, y in zip(a, b):
                for smp, c in y["samples"].items():
                    if x["samples"][smp]["phased"]:
                        continue        # phase that came with the (pre-phased) input, not the tool's statement
                    if c["phased"] and not (len(y["ref"]) == 1 and all(len(z) == 1 for z in y["alts"])):
                        ctx.violation("polyphase:non-snv-phased", "%s:%d %s>%s phased with --only-snvs" % (y["chrom"], y["pos"], y["ref"], y["alts"]))
        for kind, msg in vm.diff_headers(ha, hb):
            ctx.violation("polyphase:" + kind, msg)
        def untouched(sample, rec):
            return (sample == "t" and case.get("second_sample") == "unselected" and not phased) or (
                rec["chrom"] == "chr2" and case.get("second_contig") == "unselected" and not phased)
        def regenotyped(sample, rec):
            return bool(case.get("distrust")) and not untouched(sample, rec)
        for kind, msg in vm.diff_records(a, b, ignore_format=("PS", "HP"), compare_gt="multiset", gt_exact_for=untouched, fmt_exact_for=untouched,
                                         gt_free_for=regenotyped):
            ctx.violation("polyphase:" + kind, msg)
        if case.get("distrust"):
            ctx.label("distrust-genotypes")
            if any(vm.allele_multiset(x["samples"]["s"]["GT"]) != vm.allele_multiset(y["samples"]["s"]["GT"]) for x, y in zip(a, b)):
                ctx.label("distrust-genotypes: a genotype was changed")
        # sample t and contig chr2 have no reads: nothing there may be phased
        for y in b:
            for smp, c in y["samples"].items():
                if (smp == "t" or y["chrom"] == "chr2") and c["phased"]:
                    ctx.violation("polyphase:phased-without-reads", "%s:%d sample %s is phased (%r) although no read covers it" % (y["chrom"], y["pos"], smp, c["GT"]))
                if c["phased"] and (c["GT"] is None or any(g is None for g in c["GT"])):
                    ctx.violation("polyphase:phased-missing", "%s:%d sample %s: phased genotype with missing alleles %r" % (y["chrom"], y["pos"], smp, c["GT"]))
        a = [x for x in a if x["chrom"] == "chr1"]
        b = [y for y in b if y["chrom"] == "chr1"]
        # accessible (read-covered) heterozygous variants, recomputed from the read geometry
        # heterozygous according to the VCF the tool was given
        def vcf_alleles(vi):
            if wcase is not case and str(vi) in case.get("gt_errors", {}):
                return case["gt_errors"][str(vi)]
            return [h[vi] for h in haps]
        het = [vi for vi in range(len(variants)) if len(set(vcf_alleles(vi))) > 1 and not (wcase is not case and vi in case.get("missing", []))
               and not (case.get("only_snvs") and G.vtype(variants[vi]) != "snv")]
        accessible = set()
        by_name = {}
        for r in reads:
            by_name.setdefault(r["name"], []).append(r)
        for rs in by_name.values():
            cov = {vi for r in rs for vi in het if G.coverage_class(r, variants[vi]) == "full"}
            if len(cov) >= max(2, case.get("min_overlap", 2)):
                accessible.update(cov)
        acc_pos = {variants[vi]["pos"] for vi in accessible}
        runs = []
        multi = False
        # with --use-prephasing the input carries phase itself; when the tool did not process the sample (fewer than two
        # usable heterozygous variants or no suitable reads) that phase is passed through and is not the tool's statement
        changed = any((x["samples"]["s"]["GT"], x["samples"]["s"]["phased"], x["samples"]["s"]["fmt"].get("PS")) !=
                      (y["samples"]["s"]["GT"], y["samples"]["s"]["phased"], y["samples"]["s"]["fmt"].get("PS")) for x, y in zip(a, b))
        if o["prephase"] and not changed:
            ctx.label("prephased-input-passed-through")
            b = []
        for y in b:
            c = y["samples"]["s"]
            if not c["phased"]:
                continue
            gt = c["GT"]
            pos0 = y["pos"] - 1
            if len(set(gt)) < 2:
                ctx.violation("polyphase:phased-homozygous", "%d phased as %r" % (y["pos"], gt))
            if max(gt) > 1:
                multi = True
            ps = c["fmt"].get("PS")
            if runs and runs[-1]["ps"] == ps:
                runs[-1]["last"] = pos0
            else:
                runs.append({"ps": ps, "first": pos0, "last": pos0})
        seen = set()
        prev_last = -1
        for r in runs:
            if r["ps"] in seen:
                ctx.violation("polyphase:interleaved-blocks", "phase set %r occurs in two separate runs: %r" % (r["ps"], runs))
            seen.add(r["ps"])
            if r["ps"] is None:
                ctx.violation("polyphase:missing-ps", "phased call without PS at %d" % (r["first"] + 1))
                continue
            p0 = r["ps"] - 1
            if p0 not in acc_pos:
                ctx.violation("polyphase:block-name", "phase set id %d is not the position of a read-covered heterozygous variant (run %r)" % (r["ps"], r))
            elif not (prev_last < p0 <= r["first"]):
                ctx.violation("polyphase:block-name", "phase set id %d does not lie after the previous block (last phased %d) and at or before the block's first phased variant %d" % (
                    r["ps"], prev_last + 1, r["first"] + 1))
            prev_last = r["last"]
        ctx.nontrivial(len(runs) >= 2 or multi or case["collapsed"])
        ctx.label("ploidy-%d" % ploidy)
        ctx.label("B-%d" % o["B"])
        if len(runs) >= 2:
            ctx.label(">=2-blocks")
        if multi:
            ctx.label("multi-allelic-phased")
        if o["prephase"]:
            ctx.label("prephasing")
        if any("pair" in sp for sp in case["read_specs"]):
            ctx.label("paired-reads")
        if any("err" in sp for sp in case["read_specs"]):
            ctx.label("reads-with-errors")
        if not runs:
            ctx.label("nothing-phased")


PARTS = [PolyphasePart()]
