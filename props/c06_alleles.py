"""C06 - allele detection never assigns the wrong allele to an error-free read."""
import os
from hypothesis import strategies as st

from vlib import genome as G
from whatshap.core import NumericSampleIds
from whatshap.variants import ReadSetReader
from whatshap.vcf import BiallelicVcfVariant

ID = "C06"
RULE = ("One contig (250-600 bp, random bases, optionally with planted short tandem repeats), well separated variants "
        "(SNV / insertion / deletion / MNP, allele length 1-6, gap >= 30 bp) plus 'unrelated' indels that are not in the "
        "variant list, two haplotypes; 8-24 error-free reads whose boundaries are placed at every offset in [-3,+3] around "
        "a variant's first / last base and its normalised position (and at random), with soft / hard clips, N skips placed "
        "near variants, =/X CIGARs and mate pairs. Both detection modes (re-alignment with reference, CIGAR-based without). "
        "Oracle per (read, variant): geometry decides fully-covers / does-not-overlap / partial; the recorded allele is "
        "compared with the haplotype the read was copied from. Non-trivial = a (read, variant) pair in which the variant "
        "lies within 3 bp of a CIGAR operation boundary or read end, or the read carries S/N/I/D besides the variant. "
        "A second part places variants only 1-9 bp apart and uses detection without reference (neighbours do not interact there); insertions up to 45 bp occur in the main part. Distinct = distinct generated case; evaluations = BAM files, units = judged (read, variant) pairs.")
ASSUMPTIONS = [
    "reads are exact copies of a haplotype with indels placed at the variant's normalised position (suffix-then-prefix trimming)",
    "fully covers = one N-free aligned block contains the VCF REF span plus one flanking base on each side; does not overlap = no aligned or deleted base inside the REF span; everything else is partial and not judged",
    "a mate pair is one read: a variant fully covered by either mate (and not partially by the other) is judged like a variant of a single read, whatever the orientation of the mates",
    "without reference, the always-found claim is judged for SNVs and for pure insertions/deletions that cannot be shifted in their sequence context",
]


def shiftable(seq, v, w=12):
    npos, nref, nalt = G.normalise(v["pos"], v["ref"], v["alt"])
    if nref and nalt:
        return False
    if not nref:
        n = len(nalt)
        hap = seq[:npos] + nalt + seq[npos:]
        for q in range(max(0, npos - w), min(len(seq), npos + w) + 1):
            if q != npos and seq[:q] + hap[q:q + n] + seq[q:] == hap:
                return True
        return False
    n = len(nref)
    hap = seq[:npos] + seq[npos + n:]
    for q in range(max(0, npos - w), min(len(seq) - n, npos + w) + 1):
        if q != npos and seq[:q] + seq[q + n:] == hap:
            return True
    return False


def gen_case(draw, close=False):
    L = draw(st.integers(250, 600))
    seq = list(G.random_seq(draw(st.integers(0, 10 ** 6)), L))
    # plant a few short tandem repeats so that shiftable indels occur
    for _ in range(draw(st.integers(0, 3))):
        unit = "".join(draw(st.sampled_from("ACGT")) for _ in range(draw(st.integers(1, 3))))
        p = draw(st.integers(10, L - 40))
        rep = (unit * 12)[:draw(st.integers(4, 14))]
        seq[p:p + len(rep)] = list(rep)
    seq = "".join(seq)
    if close:
        # closely spaced variants (1-9 bp apart): only meaningful for CIGAR-based detection, where neighbours do not interact
        variants = G.gen_contig_variants(draw, seq, mingap=1, maxgap=9, maxlen=6, kinds=("snv", "snv", "ins", "ins", "del", "del", "mnp"))
    else:
        variants = G.gen_contig_variants(draw, seq, mingap=30, maxgap=70, maxlen=draw(st.sampled_from([6, 6, 6, 45])),
                                         kinds=("snv", "snv", "ins", "ins", "del", "del", "mnp"), hidden_share=12)
    haps = G.gen_haplotypes(draw, len(variants), 2)
    case = {"contigs": [{"name": "chr1", "seq": seq}], "variants": {"chr1": variants}, "samples": ["s"],
            "haps": {"s": {"chr1": haps}}}
    specs = []
    nreads = draw(st.integers(8, 24))
    for i in range(nreads):
        h = draw(st.integers(0, 1))
        spec = {"name": "r%d" % i, "sample": "s", "chrom": "chr1", "hap": h}
        mode = draw(st.sampled_from(["start", "end", "start", "end", "random", "skip", "pair"]))
        if variants and mode in ("start", "end", "skip"):
            v = variants[draw(st.integers(0, len(variants) - 1))]
            npos = G.normalise(v["pos"], v["ref"], v["alt"])[0]
            anchor = draw(st.sampled_from([v["pos"], v["pos"] + len(v["ref"]) - 1, npos, v["pos"] + len(v["ref"])]))
            off = draw(st.integers(-3, 3))
            other = draw(st.integers(15, 160))
            if mode == "start":
                s = max(0, anchor + off)
                segs = [[s, min(L, s + other)]]
            elif mode == "end":
                e = min(L, max(1, anchor + off + 1))
                segs = [[max(0, e - other), e]]
            else:
                # N skip with one edge near the variant
                off = draw(st.integers(-12, 12))
                edge = min(L - 2, max(2, anchor + off))
                gap = draw(st.integers(3, 60))
                if draw(st.booleans()):
                    segs = [[max(0, edge - other), edge], [min(L - 1, edge + gap), min(L, edge + gap + draw(st.integers(10, 120)))]]
                else:
                    segs = [[max(0, edge - gap - draw(st.integers(10, 120))), max(1, edge - gap)], [edge, min(L, edge + other)]]
            spec["segments"] = [sg for sg in segs if sg[1] > sg[0]]
        else:
            s = draw(st.integers(0, L - 20))
            e = min(L, s + draw(st.integers(20, 220)))
            spec["segments"] = [[s, e]]
            if mode == "pair":
                s2 = min(L - 2, max(0, s + draw(st.integers(-30, 250))))
                e2 = min(L, s2 + draw(st.integers(20, 150)))
                if e2 > s2:
                    spec["pair"] = [s2, e2]
                    spec["pair_orientation"] = draw(st.sampled_from(["FR", "FF"]))
                    # the mates (which may overlap) have base qualities of their own
                    spec["pair_qual"] = draw(st.sampled_from([40, 40, 12, 27]))
        if draw(st.integers(0, 2)) == 0:
            spec["qual"] = draw(st.sampled_from([12, 27, 33]))
        if not spec["segments"]:
            continue
        if draw(st.integers(0, 3)) == 0:
            # soft clips up to 30 bases, hard clips up to the length of a clipped-off supplementary part
            spec["clips"] = ["".join(draw(st.sampled_from("ACGT")) for _ in range(draw(st.sampled_from([0, 1, 3, 5, 12, 30])))),
                             "".join(draw(st.sampled_from("ACGT")) for _ in range(draw(st.sampled_from([0, 1, 3, 5, 12, 30])))),
                             draw(st.sampled_from([0, 0, 4, 25, 120])), draw(st.sampled_from([0, 0, 3, 40]))]
        if draw(st.integers(0, 5)) == 0:
            spec["eqx"] = True
        specs.append(spec)
    case["read_specs"] = specs
    case["use_reference"] = False if close else draw(st.booleans())
    return case


def near_boundary(read, v):
    """variant within 3 bp of a CIGAR operation boundary / read end, or read has S/N/I/D"""
    import re
    r = read["pos"]
    bounds = [r]
    other_ops = False
    for n, op in re.findall(r"(\d+)([MIDNSHP=X])", read["cigar"]):
        n = int(n)
        if op in "M=XDN":
            r += n
            bounds.append(r)
        if op in "SNID":
            other_ops = True
    a, b = v["pos"], v["pos"] + len(v["ref"])
    return other_ops or any(a - 3 <= x <= b + 3 for x in bounds)


class AllelePart:
    name = "detect"
    budget = {"quick": 6400, "thorough": 120000}

    def strategy(self, tier):
        @st.composite
        def case(draw):
            return gen_case(draw)
        return case()

    def run(self, case, ctx):
        d = ctx.tmp()
        seq = case["contigs"][0]["seq"]
        variants = case["variants"]["chr1"]
        reads = G.render_specs(case, case["read_specs"])
        # orientation of pairs
        by_name = {}
        for r in reads:
            by_name.setdefault(r["name"], []).append(r)
        for name, rs in by_name.items():
            if len(rs) == 2 and rs[0]["spec"].get("pair_orientation") == "FF":
                rs[1]["flag"] = 1 | 2 | 128
                rs[0]["flag"] = 1 | 2 | 64
        if not reads:
            return
        bam = G.write_bam(case, reads, os.path.join(d, "reads.bam"))
        visible = [(vi, v) for vi, v in enumerate(variants) if not v.get("hidden")]
        vcfvars = [BiallelicVcfVariant(v["pos"], v["ref"], v["alt"]) for _, v in visible]
        ids = NumericSampleIds()
        mode = "ref" if case["use_reference"] else "noref"
        ctx.label("mode-" + mode)
        with ReadSetReader([bam], reference=None, numeric_sample_ids=ids) as reader:
            readset = reader.read("chr1", vcfvars, "s", seq if case["use_reference"] else None)
        recorded = {}
        for read in readset:
            recorded[read.name] = {var.position: var.allele for var in read}
        nt = False
        for name, rs in by_name.items():
            paired = len(rs) > 1
            got = recorded.get(name, {})
            for vi, v in visible:
                classes = [G.coverage_class(r, v) for r in rs]
                truth = case["haps"]["s"]["chr1"][rs[0]["hap"]][vi]
                rec = got.get(v["pos"])
                typ = G.vtype(v)
                if all(c == "none" for c in classes):
                    ctx.unit("pairs-no-overlap")
                    if rec is not None:
                        npos = G.normalise(v["pos"], v["ref"], v["alt"])[0]
                        sig = "%s:recorded-without-overlap" % mode
                        if typ == "ins" and any(r["pos"] == npos for r in rs):
                            sig += ":ins-at-read-start"
                        ctx.violation(sig, "read %s (%s at %d) does not overlap %s %r but allele %r was recorded (haplotype carries %d)" % (
                            name, rs[0]["cigar"], rs[0]["pos"], typ, v, rec, truth))
                    continue
                if paired and "partial" in classes:
                    ctx.unit("pairs-partial-not-judged")
                    continue
                if "full" in classes:
                    ctx.unit("pairs-full")
                    if any(near_boundary(r, v) for r, c in zip(rs, classes) if c == "full"):
                        nt = True
                        ctx.unit("pairs-full-near-boundary")
                    # a hidden indel inside the re-alignment window makes the copy differ from both padded alleles
                    if rec is not None and rec != truth:
                        sig = "%s:wrong-allele:%s" % (mode, typ)
                        if any("N" in r["cigar"] for r in rs):
                            sig += ":read-with-N"
                        ctx.violation(sig, "read %s (%s at %d, haplotype %d) fully covers %s %r carrying allele %d but %d was recorded" % (
                            name, rs[0]["cigar"], rs[0]["pos"], rs[0]["hap"], typ, v, truth, rec))
                    elif rec is None:
                        must = typ in ("snv", "ins", "del", "mnp") if case["use_reference"] else (
                            typ == "snv" or (typ in ("ins", "del") and not shiftable(seq, v)))
                        if must:
                            sig = "%s:not-detected:%s:%s" % (mode, typ, "alt" if truth else "ref")
                            if any("N" in r["cigar"] for r in rs):
                                sig += ":read-with-N"
                            ctx.violation(sig, "read %s (%s at %d, haplotype %d) fully covers %s %r carrying allele %d but no allele was recorded" % (
                                name, rs[0]["cigar"], rs[0]["pos"], rs[0]["hap"], typ, v, truth))
                        else:
                            ctx.unit("pairs-full-undetected-allowed")
                else:
                    ctx.unit("pairs-partial-not-judged")
        ctx.nontrivial(nt)


class ClosePart(AllelePart):
    """variants 1-9 bp apart, detection without reference (CIGAR based)"""
    name = "close-noref"
    budget = {"quick": 1600, "thorough": 30000}

    def strategy(self, tier):
        @st.composite
        def case(draw):
            return gen_case(draw, close=True)
        return case()


PARTS = [AllelePart(), ClosePart()]
