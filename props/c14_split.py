"""C14 - split distributes every read to exactly the outputs its haplotype entry selects."""
import gzip, os
from hypothesis import strategies as st
import pysam

from whatshap.cli.split import run_split

ID = "C14"
RULE = ("Reads: 1-30 records as unaligned BAM, aligned BAM (CIGAR, primary / reverse / secondary / supplementary records; without SEQ "
        "the CIGAR gives the length), FASTQ or FASTQ.gz, names from a small pool (duplicates frequent), sequences "
        "of length 0-40 (BAM: also '*'), tags/comments; list: 2 or 4 columns, with/without header line, H1..Hn and 'none' "
        "entries, names absent from the reads, reads absent from the list, phase sets and chromosomes for "
        "--only-largest-block; ploidy 2 via --output-h1/-h2 (each optional) or 2-4 via -o; every combination of "
        "--output-untagged, --add-untagged, --discard-unknown-reads, --only-largest-block, --read-lengths-histogram. "
        "Oracle: routing model built from the list; every output file must equal the subsequence of the input routed to "
        "it (name, sequence, qualities, tags/comment; order preserved); partition when all outputs are requested; "
        "histogram column sums = reads routed to the class. Non-trivial = duplicate read names, or a 'none' entry, or an "
        "omitted output, together with >= 1 tagged read. Distinct = distinct generated case.")
ASSUMPTIONS = [
    "read names in the list are unique (the tool asserts this with --discard-unknown-reads; otherwise the last non-'none' entry would win)",
    "haplotype names do not exceed the ploidy given by the outputs (documented error otherwise)",
    "with --only-largest-block, cases in which two phase sets of a chromosome tie for the largest are not judged",
    "with --add-untagged the histogram is compared with the routing class of a read (untagged reads are counted once, in the untagged column)",
]

NAMES = ["r1", "r2", "r3", "r4", "r5", "r6", "read/7", "m54_8/9/ccs", "x"]


def gen_case(draw):
    fmt = draw(st.sampled_from(["bam", "fastq", "fastq.gz"]))
    nreads = draw(st.integers(1, 30))
    dup = draw(st.booleans())
    reads = []
    for i in range(nreads):
        name = draw(st.sampled_from(NAMES)) if dup else "u%d" % i
        n = draw(st.sampled_from([0, 1, 2, 5, 5, 10, 10, 17, 40]))
        if fmt != "bam" and n == 0:
            n = 1
        seq = "".join(draw(st.sampled_from("ACGT")) for _ in range(n))
        qual = "".join(draw(st.sampled_from("!5I~")) for _ in range(n))
        extra = draw(st.sampled_from([None, None, "np:i:3", "zz"]))
        reads.append({"name": name, "seq": seq, "qual": qual, "extra": extra})
    # the usual input of split is an aligned (haplotagged) BAM: records with a CIGAR; without SEQ the length is that of the CIGAR
    aligned = fmt == "bam" and draw(st.booleans())
    if aligned:
        for r in reads:
            r["pos"] = draw(st.integers(0, 5000))
            r["qlen"] = len(r["seq"]) or draw(st.integers(1, 60))
            r["flag"] = draw(st.sampled_from([0, 0, 16, 256, 2048]))
    mode = draw(st.sampled_from(["h1h2", "outputs"]))
    ploidy = 2 if mode == "h1h2" else draw(st.sampled_from([2, 3, 4]))
    fourcol = draw(st.booleans())
    header = draw(st.booleans())
    names_in_reads = sorted({r["name"] for r in reads})
    pool = names_in_reads + ["absent1", "absent2"]
    listed = [n for n in pool if draw(st.integers(0, 3)) > 0]
    entries = []
    for n in listed:
        hap = draw(st.sampled_from(["none"] + ["H%d" % h for h in range(1, ploidy + 1)] * 2))
        ps = draw(st.sampled_from([100, 100, 200, 300]))
        chrom = draw(st.sampled_from(["chr1", "chr1", "chr2"]))
        entries.append([n, hap, ps, chrom])
    entries = draw(st.permutations(entries)) if entries else []
    if mode == "h1h2":
        h_out = [draw(st.booleans()), draw(st.booleans())]
        if not any(h_out):
            h_out[draw(st.integers(0, 1))] = True
    else:
        h_out = [True] * ploidy
    opts = {"untagged": draw(st.booleans()), "add_untagged": draw(st.integers(0, 3)) == 0,
            "discard_unknown": draw(st.integers(0, 2)) == 0 and len(entries) > 0,
            "only_largest": fourcol and draw(st.integers(0, 2)) == 0, "histogram": draw(st.booleans())}
    return {"fmt": fmt, "aligned": aligned, "reads": reads, "mode": mode, "ploidy": ploidy, "fourcol": fourcol, "header": header,
            "entries": [list(e) for e in entries], "h_out": h_out, "opts": opts}


def write_reads(case, path):
    if case["fmt"] == "bam":
        header = {"HD": {"VN": "1.6", "SO": "unknown"}, "RG": [{"ID": "rg1", "SM": "s"}]}
        if case.get("aligned"):
            header["SQ"] = [{"SN": "chr1", "LN": 100000}]
        with pysam.AlignmentFile(path, "wb", header=header) as out:
            for r in case["reads"]:
                a = pysam.AlignedSegment(out.header)
                a.query_name = r["name"]
                a.flag = 4
                if case.get("aligned"):
                    a.flag = r["flag"]
                    a.reference_id = 0
                    a.reference_start = r["pos"]
                    a.mapping_quality = 60
                    a.cigarstring = "%dM" % r["qlen"]
                if r["seq"]:
                    a.query_sequence = r["seq"]
                    a.query_qualities = pysam.qualitystring_to_array(r["qual"])
                a.set_tag("RG", "rg1")
                if r["extra"] == "np:i:3":
                    a.set_tag("np", 3)
                elif r["extra"]:
                    a.set_tag("zz", r["extra"])
                out.write(a)
    else:
        op = gzip.open if case["fmt"].endswith(".gz") else open
        with op(path, "wt") as f:
            for r in case["reads"]:
                head = "@" + r["name"] + ((" " + r["extra"]) if r["extra"] else "")
                f.write("%s\n%s\n+\n%s\n" % (head, r["seq"], r["qual"]))


def read_records(fmt, path):
    out = []
    if fmt == "bam":
        with pysam.AlignmentFile(path, "rb", check_sq=False) as f:
            for a in f:
                tags = tuple(sorted((k, v) for k, v in a.get_tags()))
                q = a.query_qualities
                out.append((a.query_name, a.query_sequence or "", "".join(chr(x + 33) for x in q) if q is not None else "", a.flag, tags,
                            a.reference_start if not a.is_unmapped else None, a.cigarstring))
    else:
        with pysam.FastxFile(path) as f:
            for r in f:
                out.append((r.name, r.sequence or "", r.quality or "", r.comment or ""))
    return out


def expected_records(case):
    if case["fmt"] == "bam":
        out = []
        for r in case["reads"]:
            tags = [("RG", "rg1")]
            if r["extra"] == "np:i:3":
                tags.append(("np", 3))
            elif r["extra"]:
                tags.append(("zz", r["extra"]))
            if case.get("aligned"):
                out.append((r["name"], r["seq"], r["qual"] if r["seq"] else "", r["flag"], tuple(sorted(tags)), r["pos"], "%dM" % r["qlen"]))
            else:
                out.append((r["name"], r["seq"], r["qual"] if r["seq"] else "", 4, tuple(sorted(tags)), None, None))
        return out
    return [(r["name"], r["seq"], r["qual"], r["extra"] or "") for r in case["reads"]]


class SplitPart:
    name = "split"
    budget = {"quick": 3200, "thorough": 64000}

    def strategy(self, tier):
        @st.composite
        def case(draw):
            return gen_case(draw)
        return case()

    def run(self, case, ctx):
        d = ctx.tmp()
        fmt = case["fmt"]
        ext = {"bam": "bam", "fastq": "fastq", "fastq.gz": "fastq.gz"}[fmt]
        reads_path = os.path.join(d, "reads." + ext)
        write_reads(case, reads_path)
        list_path = os.path.join(d, "list.tsv")
        with open(list_path, "w") as f:
            if case["header"]:
                first = "#readname" if len(case["reads"]) % 2 else "# name"
                f.write(first + "\thaplotype" + ("\tphaseset\tchromosome" if case["fourcol"] else "") + "\n")
            for n, hap, ps, chrom in case["entries"]:
                f.write("%s\t%s" % (n, hap) + ("\t%d\t%s" % (ps, chrom) if case["fourcol"] else "") + "\n")
        opts = case["opts"]
        ploidy = case["ploidy"]
        outs = {}
        kw = {}
        if opts["untagged"]:
            outs[0] = os.path.join(d, "untagged." + ext)
            kw["output_untagged"] = outs[0]
        if case["mode"] == "h1h2":
            for h in (1, 2):
                if case["h_out"][h - 1]:
                    outs[h] = os.path.join(d, "h%d.%s" % (h, ext))
                    kw["output_h%d" % h] = outs[h]
        else:
            for h in range(1, ploidy + 1):
                outs[h] = os.path.join(d, "h%d.%s" % (h, ext))
            kw["outputs"] = [outs[h] for h in range(1, ploidy + 1)]
        hist = os.path.join(d, "hist.tsv") if opts["histogram"] else None
        if not case["entries"] and not case["header"]:
            ctx.label("empty-list")
        try:
            run_split(reads_path, list_path, add_untagged=opts["add_untagged"], only_largest_block=opts["only_largest"],
                      discard_unknown_reads=opts["discard_unknown"], read_lengths_histogram=hist, **kw)
        except ValueError as e:
            if not case["entries"]:
                # an empty list file has no first line with >= 2 columns: documented rejection
                ctx.label("rejected-empty-list")
                return
            raise
        # ---- routing model
        cls = {}
        for n, hap, ps, chrom in case["entries"]:
            if hap != "none":
                cls[n] = int(hap[1:])
        if opts["only_largest"]:
            sizes = {}
            for n, hap, ps, chrom in case["entries"]:
                if hap != "none":
                    sizes.setdefault(chrom, {}).setdefault(ps, set()).add(n)
            keep = set()
            for chrom, blocks in sizes.items():
                top = max(len(v) for v in blocks.values())
                best = [ps for ps, v in blocks.items() if len(v) == top]
                if len(best) > 1:
                    ctx.label("tie-largest-block-not-judged")
                    return
                keep |= blocks[best[0]]
            cls = {n: h for n, h in cls.items() if n in keep}
        known = {e[0] for e in case["entries"]}
        process = {h: (h in outs) for h in range(0, ploidy + 1)}
        process[0] = process[0] or opts["add_untagged"]
        exp = expected_records(case)
        routed = {h: [] for h in range(0, ploidy + 1)}   # records per output file
        classcount = {h: {} for h in range(0, ploidy + 1)}
        for r, rec in zip(case["reads"], exp):
            if opts["discard_unknown"] and r["name"] not in known:
                continue
            h = cls.get(r["name"], 0)
            if not process[h]:
                continue
            L = r["qlen"] if case.get("aligned") else len(r["seq"])   # no SEQ: the length the CIGAR implies
            classcount[h][L] = classcount[h].get(L, 0) + 1
            routed[h].append(rec)
            if h == 0 and opts["add_untagged"]:
                for k in range(1, ploidy + 1):
                    routed[k].append(rec)
        # ---- compare outputs
        for h, path in outs.items():
            got = read_records(fmt, path)
            if got != routed[h]:
                sig = "split:output-mismatch"
                if opts["discard_unknown"]:
                    sig += ":discard-unknown"
                missing = [x[0] for x in routed[h]]
                ctx.violation(sig, "output %s: got reads %r, expected %r (options %r)" % (
                    "untagged" if h == 0 else "H%d" % h, [x[0] for x in got], missing, opts))
        if all(h in outs for h in range(0, ploidy + 1)) and not opts["add_untagged"] and not opts["discard_unknown"]:
            allout = []
            for h in outs:
                allout += read_records(fmt, outs[h])
            if sorted(allout) != sorted(exp):
                ctx.violation("split:not-a-partition", "outputs together hold %d records, input %d" % (len(allout), len(exp)))
            ctx.label("partition-checked")
        if hist:
            sums = None
            with open(hist) as f:
                header = f.readline().rstrip("\n").split("\t")
                sums = [0] * (len(header) - 1)
                rows = {}
                nrows = 0
                for line in f:
                    p = line.rstrip("\n").split("\t")
                    nrows += 1
                    for h, x in enumerate(p[1:]):
                        sums[h] += int(x)
                    rows[int(p[0])] = [int(x) for x in p[1:]]
            if len(header) - 1 != ploidy + 1:
                ctx.violation("split:histogram-shape", "histogram header %r for ploidy %d" % (header, ploidy))
            else:
                for h in range(0, ploidy + 1):
                    want = classcount[h]
                    got = {L: v[h] for L, v in rows.items() if v[h]}
                    if got != want:
                        ctx.violation("split:histogram", "histogram column %d: %r, reads routed to the class by length: %r" % (h, got, want))
                    elif sums[h] != sum(want.values()):
                        # the counts of a column must add up to the reads of that class: a length listed in two rows counts twice
                        ctx.violation("split:histogram-total", "histogram column %d adds up to %d over %d rows (%d distinct lengths), %d reads were routed to the class" % (
                            h, sums[h], nrows, len(rows), sum(want.values())))
        dupnames = len({r["name"] for r in case["reads"]}) < len(case["reads"])
        has_none = any(e[1] == "none" for e in case["entries"])
        omitted = any(h not in outs for h in range(0, ploidy + 1))
        if case.get("aligned"):
            ctx.label("aligned-bam")
        ctx.nontrivial((dupnames or has_none or omitted) and any(cls.get(r["name"]) for r in case["reads"]))
        for lab, flag in (("duplicate-read-names", dupnames), ("none-entry", has_none), ("omitted-output", omitted),
                          ("discard-unknown", opts["discard_unknown"]), ("add-untagged", opts["add_untagged"]),
                          ("only-largest-block", opts["only_largest"]), ("fmt-" + fmt, True)):
            if flag:
                ctx.label(lab)


PARTS = [SplitPart()]
