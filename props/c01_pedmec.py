"""C01 - the exact solver returns a minimum-cost (Ped)MEC solution with a matching witness.

Observed at whatshap.core.PedigreeDPTable. Oracle: vlib.oracles.PedMEC (brute force over all
read bipartitions, plain min-plus chaining over transmission values).
"""
import itertools
from hypothesis import strategies as st

from whatshap.core import Read, ReadSet, Pedigree, PedigreeDPTable, NumericSampleIds, Genotype, PhredGenotypeLikelihoods
from vlib.oracles import PedMEC, INF

ID = "C01"
RULE = ("Instances: pedigree shape in {single, two unrelated, trio, quartet, three-generation (2 trios, 5 individuals)} "
        "with individuals added in a random order; 1-6 columns (4-10 in the share aimed at the sqrt-checkpoint path), "
        "explicit position list with uncovered columns or positions taken from the reads; 0-7 reads (<= 8 in deep "
        "mode) with gaps, alleles 0/1, integer weights incl. 0 and equal weights; trusted genotypes derived from random "
        "founder haplotypes + transmission (a share made inconsistent) or distrusted genotypes with integer phred "
        "triples; recombination costs per column from {0,1,3,10,25}. Oracle: brute-force minimum, witness re-evaluation "
        "and per-column tie rule. Non-trivial = at least two reads share a column and (optimal cost > 0 or a tie is "
        "flagged or the returned transmission vector contains a recombination). Wide part: 12-20 reads per column (single, trio, "
        "quartet; planted haplotypes with 0-10 % allele errors), judged without brute force: the returned partition and "
        "transmission re-evaluate to the reported cost, the cost does not exceed that of the planted solution (0 for error-free "
        "reads), and no single read move or single-column transmission change lowers it. Exhaustive part: every matrix with <= 3 "
        "reads over <= 3 columns (entries 0/1/absent, weights {1,2}), all genotype vectors, single individual and trio.")
ASSUMPTIONS = [
    "reads are handed over sorted (ReadSet.sort or pre-sorted), each read's variants sorted, no duplicate position in a read, explicit positions contain every read position (constructor preconditions)",
    "phred likelihoods are integer valued (real callers round), costs stay far below 2^31",
    "witness check accepts either global convention for the meaning of a transmission bit, applied consistently to all columns",
]

SHAPES = {
    "single": (1, []),
    "two": (2, []),
    "trio": (3, [[0, 1, 2]]),
    "quartet": (4, [[0, 1, 2], [0, 1, 3]]),
    "threegen": (5, [[0, 1, 2], [2, 3, 4]]),
}
WEIGHTS = [0, 1, 1, 1, 2, 2, 5, 10, 30]


def run_impl(inst):
    """Builds the core objects from a plain-data instance and returns what the solver reports."""
    ids = NumericSampleIds()
    ncols = inst["ncols"]
    pos = inst["positions"]
    order = inst.get("order") or list(range(inst["n_ind"]))
    # numeric ids follow the pedigree order so that individual *indices* are positions in `order`
    for i in order:
        ids["s%d" % i]
    rs = ReadSet()
    names = inst.get("names") or ["r%d" % r for r in range(len(inst["reads"]))]
    for r, rd in enumerate(inst["reads"]):
        read = Read(names[r], 50, 0, ids["s%d" % rd["ind"]])
        for col, al, q in rd["vars"]:
            read.add_variant(pos[col], al, q)
        rs.add(read)
    if inst.get("sort", True):
        rs.sort()
    ped = Pedigree(ids)
    for i in order:
        gts = [Genotype(list(g)) for g in inst["gt"][i]]
        gls = [PhredGenotypeLikelihoods([float(x) for x in t]) for t in inst["gl"][i]] if inst["distrust"] else None
        ped.add_individual("s%d" % i, gts, gls)
    for f, m, c in inst["trios"]:
        ped.add_relationship("s%d" % f, "s%d" % m, "s%d" % c)
    positions = list(pos) if inst.get("use_positions", True) else None
    dp = PedigreeDPTable(rs, list(inst["recomb"]), ped, inst["distrust"], positions)
    sr, tv = dp.get_super_reads()
    part = dp.get_optimal_partitioning()
    # map partition back to case read indices (the read set may have been reordered by sort)
    name_to_idx = {n: r for r, n in enumerate(names)}
    part_by_case = [None] * len(inst["reads"])
    for k, read in enumerate(rs):
        part_by_case[name_to_idx[read.name]] = part[k]
    supers = []
    for s in sr:
        supers.append([[(v.position, v.allele) for v in read] for read in s])
    return dp.get_optimal_cost(), part_by_case, list(tv), supers


def permuted(inst):
    """oracle-side instance in which individual index = position in the pedigree order"""
    order = inst.get("order") or list(range(inst["n_ind"]))
    new = {old: k for k, old in enumerate(order)}
    o = dict(inst)
    o["trios"] = [[new[f], new[m], new[c]] for f, m, c in inst["trios"]]
    o["reads"] = [{"ind": new[r["ind"]], "vars": r["vars"]} for r in inst["reads"]]
    o["gt"] = [inst["gt"][old] for old in order]
    o["gl"] = [inst["gl"][old] for old in order]
    return o


def check_instance(inst, ctx, tagprefix=""):
    oinst = permuted(inst)
    oracle = PedMEC(oinst)
    expected, _ = oracle.minimum()
    n_ind = inst["n_ind"]
    ncols = inst["ncols"]
    try:
        cost, part, tv, supers = run_impl(inst)
    except RuntimeError as e:
        if "Mendelian conflict" in str(e):
            if expected != INF:
                ctx.violation("c01:spurious-mendelian-conflict", "solver raised %r but the brute force finds cost %r" % (str(e), expected))
            else:
                ctx.label("mendelian-conflict-agreed")
            return None
        raise
    if expected == INF:
        ctx.violation("c01:missed-infeasible", "no admissible assignment exists (brute force) but the solver reports cost %r" % cost)
        return None
    if cost != expected:
        ctx.violation("c01:cost", "reported cost %r, brute-force minimum %r" % (cost, expected))
    if ncols == 0 or len(tv) != ncols or any(p is None for p in part):
        if ncols and len(tv) != ncols:
            ctx.violation("c01:shape", "transmission vector has %d entries for %d columns" % (len(tv), ncols))
        return cost
    # (ii) witness
    wit = oracle.objective(part, tv)
    if wit != cost:
        alt = PedMEC(oinst, flip=True)
        wit2 = alt.objective(part, tv)
        if wit2 != cost:
            ctx.violation("c01:witness", "returned partition %r / transmission %r evaluate to %r (other bit convention %r), reported cost %r" % (part, tv, wit, wit2, cost))
            return cost
        oracle = alt
        ctx.label("witness-via-flipped-convention")
    # (iii) tie rule + super-read structure
    tie = False
    for k in range(n_ind):
        if len(supers[k]) != 2 or any(len(h) != ncols for h in supers[k]):
            ctx.violation("c01:shape", "super reads of individual %d: %r" % (k, supers[k]))
            return cost
    for c in range(ncols):
        best, bests = oracle.column(c, tv[c], oracle._bits(c, part))
        hp = oracle.maps[tv[c]][0]
        for k in range(n_ind):
            for h in (0, 1):
                position, al = supers[k][h][c]
                if position != inst["positions"][c]:
                    ctx.violation("c01:shape", "super read position %r at column %d" % (position, c))
                vals = {(a >> hp[k][h]) & 1 for a in bests}
                if al == 3:
                    tie = True
                    if len(vals) == 1:
                        ctx.label("flagged-tie-although-unique")
                elif al not in (0, 1):
                    ctx.violation("c01:allele-code", "allele code %r" % al)
                elif vals != {al}:
                    ctx.violation("c01:tie-rule", "column %d individual %d haplotype %d: returned allele %d, optimal assignments carry %r" % (c, k, h, al, sorted(vals)))
    shared = any(len(oracle.active[c]) >= 2 for c in range(ncols))
    recomb = any(tv[c] != tv[c - 1] for c in range(1, ncols))
    ctx.nontrivial(shared and (cost > 0 or tie or recomb))
    if tie:
        ctx.label("tie")
    if recomb:
        ctx.label("recombination-in-optimum")
    if cost > 0:
        ctx.label("cost>0")
    return cost


def gen_instance(draw, deep=False):
    shape = draw(st.sampled_from(["single", "single", "two", "trio", "trio", "quartet", "threegen"]))
    n_ind, trios = SHAPES[shape]
    if deep:
        ncols = draw(st.integers(4, 10))
        maxreads = 8 if shape in ("single", "two", "trio") else 5
    else:
        ncols = draw(st.integers(1, 6))
        maxreads = 7 if shape != "threegen" else 5
    nreads = draw(st.integers(0, maxreads))
    reads = []
    for _ in range(nreads):
        a = draw(st.integers(0, ncols - 1))
        b = draw(st.integers(a, ncols - 1))
        cols = [a] + [x for x in range(a + 1, b) if draw(st.integers(0, 3)) > 0] + ([b] if b > a else [])
        reads.append({"ind": draw(st.integers(0, n_ind - 1)),
                      "vars": [[c, draw(st.integers(0, 1)), draw(st.sampled_from(WEIGHTS))] for c in cols]})
    # founders' haplotypes and transmission -> consistent genotypes
    children = {c for _, _, c in trios}
    H = {}
    for i in range(n_ind):
        if i not in children:
            H[i] = [(draw(st.integers(0, 1)), draw(st.integers(0, 1))) for _ in range(ncols)]
    for f, m, c in trios:  # parents always precede children in SHAPES
        H[c] = [(H[f][k][draw(st.integers(0, 1))], H[m][k][draw(st.integers(0, 1))]) for k in range(ncols)]
    gt = [[list(H[i][k]) for k in range(ncols)] for i in range(n_ind)]
    if trios and draw(st.integers(0, 9)) == 0:
        i = draw(st.integers(0, n_ind - 1))
        k = draw(st.integers(0, ncols - 1))
        gt[i][k] = [draw(st.integers(0, 1)), draw(st.integers(0, 1))]
    distrust = draw(st.integers(0, 9)) < 4
    glvals = [0, 0, 0, 3, 10, 30, 100]
    gl = [[[draw(st.sampled_from(glvals)) for _ in range(3)] if distrust else [0, 0, 0] for _ in range(ncols)] for _ in range(n_ind)]
    recomb = [0] + [draw(st.sampled_from([0, 1, 1, 3, 10, 25])) for _ in range(ncols - 1)]
    use_positions = draw(st.booleans())
    gaps = draw(st.lists(st.integers(1, 30), min_size=ncols, max_size=ncols))
    positions = list(itertools.accumulate(gaps))
    inst = {"shape": shape, "n_ind": n_ind, "trios": trios, "ncols": ncols, "positions": positions, "reads": reads,
            "gt": gt, "gl": gl, "distrust": distrust, "recomb": recomb, "use_positions": use_positions,
            "order": draw(st.permutations(list(range(n_ind)))), "sort": True}
    if draw(st.booleans()):
        pool = ["a", "b", "c", "d", "e", "f", "g", "h", "read/1", "read/2", "x" * 20, "0", "1"]
        inst["names"] = draw(st.lists(st.sampled_from(pool), min_size=nreads, max_size=nreads, unique=True))
    else:
        # pre-sorted input, ReadSet.sort() not called
        reads.sort(key=lambda r: r["vars"][0][0])
        inst["sort"] = False
    return normalise(inst)


def normalise(inst):
    """without an explicit position list the solver only sees covered columns: drop the others"""
    if inst["use_positions"]:
        return inst
    covered = sorted({v[0] for r in inst["reads"] for v in r["vars"]})
    remap = {c: k for k, c in enumerate(covered)}
    o = dict(inst)
    o["ncols"] = len(covered)
    o["positions"] = [inst["positions"][c] for c in covered]
    o["reads"] = [{"ind": r["ind"], "vars": [[remap[c], a, w] for c, a, w in r["vars"]]} for r in inst["reads"]]
    o["gt"] = [[row[c] for c in covered] for row in inst["gt"]]
    o["gl"] = [[row[c] for c in covered] for row in inst["gl"]]
    o["recomb"] = [inst["recomb"][c] for c in covered]
    return o


class RandomPart:
    name = "random"
    budget = {"quick": 24000, "thorough": 400000}
    guard = False

    def strategy(self, tier):
        @st.composite
        def case(draw):
            return gen_instance(draw, deep=False)
        return case()

    def run(self, case, ctx):
        ctx.label("shape-" + case["shape"])
        ctx.label("distrust" if case["distrust"] else "trusted")
        ctx.label("explicit-positions" if case["use_positions"] else "positions-from-reads")
        if any(len(r["vars"]) < r["vars"][-1][0] - r["vars"][0][0] + 1 for r in case["reads"]):
            ctx.label("gapped-read")
        check_instance(case, ctx)


class DeepPart(RandomPart):
    """more columns (sqrt checkpointing with k >= 2, k = 3 from 9 columns), fewer reads"""
    name = "deep"
    budget = {"quick": 6400, "thorough": 100000}

    def strategy(self, tier):
        @st.composite
        def case(draw):
            return gen_instance(draw, deep=True)
        return case()

    def run(self, case, ctx):
        ctx.label("k>=2" if case["ncols"] >= 4 else "k=1")
        ctx.label("k=3" if case["ncols"] >= 9 else "k<3")
        RandomPart.run(self, case, ctx)


class ExhaustivePart:
    """every read matrix with <= R reads over <= C columns (entries 0/1/absent), weights {1,2} per read,
    all genotype vectors of the individuals; single individual and trio (reads assigned to individuals in all ways
    for <= 2 reads, round-robin otherwise); recombination cost 1"""
    name = "exhaustive"
    budget = {"quick": 1, "thorough": 1}
    bound = {"quick": (2, 2), "thorough": (3, 3)}

    def enumerate(self, tier):
        R, C = self.bound[tier]
        for ncols in range(1, C + 1):
            rows = [r for r in itertools.product((0, 1, None), repeat=ncols) if any(x is not None for x in r)]
            for nreads in range(0, R + 1):
                for matrix in itertools.combinations_with_replacement(rows, nreads):
                    for weights in itertools.product((1, 2), repeat=nreads):
                        for shape in ("single", "trio"):
                            n_ind, trios = SHAPES[shape]
                            assigns = [(0,) * nreads] if shape == "single" else (
                                list(itertools.product(range(3), repeat=nreads)) if nreads <= 2 else [tuple(i % 3 for i in range(nreads))])
                            gvals = ([0, 1], [1, 1], [0, 0]) if shape == "single" else ([0, 1], [0, 0])
                            for inds in assigns:
                                for gts in itertools.product(gvals, repeat=n_ind * ncols if shape == "single" or ncols == 1 else n_ind):
                                    if len(gts) == n_ind * ncols:
                                        gt = [[list(gts[i * ncols + k]) for k in range(ncols)] for i in range(n_ind)]
                                    else:
                                        gt = [[list(gts[i]) for k in range(ncols)] for i in range(n_ind)]
                                    reads = []
                                    for row, w, ind in zip(matrix, weights, inds):
                                        reads.append({"ind": ind, "vars": [[c, a, w] for c, a in enumerate(row) if a is not None]})
                                    reads.sort(key=lambda r: r["vars"][0][0])
                                    yield {"shape": shape, "n_ind": n_ind, "trios": trios, "ncols": ncols,
                                           "positions": [10 * (c + 1) for c in range(ncols)], "reads": reads, "gt": gt,
                                           "gl": [[[0, 0, 0]] * ncols] * n_ind, "distrust": False, "recomb": [0] + [1] * (ncols - 1),
                                           "use_positions": True, "sort": False}

    def run(self, case, ctx):
        ctx.label("shape-" + case["shape"])
        check_instance(case, ctx)


def gen_wide(draw):
    """coverage 12-20 reads per column (the CLI accepts --internal-downsampling up to 23): too wide for brute force, judged by
    witness re-evaluation, a planted upper bound and single-flip local optimality"""
    shape = draw(st.sampled_from(["single", "single", "trio", "quartet"]))
    n_ind, trios = SHAPES[shape]
    ncols = draw(st.integers(3, 7))
    nreads = draw(st.integers(12, {"single": 20, "trio": 18, "quartet": 16}[shape]))
    children = {c for _, _, c in trios}
    H = {}
    for i in range(n_ind):
        if i not in children:
            H[i] = [(draw(st.integers(0, 1)), draw(st.integers(0, 1))) for _ in range(ncols)]
    for f, m, c in trios:
        a, b = draw(st.integers(0, 1)), draw(st.integers(0, 1))
        H[c] = [(H[f][k][a], H[m][k][b]) for k in range(ncols)]
    errors = draw(st.sampled_from([0, 0, 1, 2, 4]))
    reads, sides = [], []
    for r in range(nreads):
        # most reads are long, so that inner columns are covered by (nearly) all reads; a few end before the last column
        a = draw(st.integers(0, 1)) if draw(st.integers(0, 3)) else draw(st.integers(0, ncols - 2))
        b = draw(st.integers(max(a + 1, ncols - 3), ncols - 1))
        ind = draw(st.integers(0, n_ind - 1))
        side = draw(st.integers(0, 1))
        vars_ = []
        for c in range(a, b + 1):
            al = H[ind][c][side]
            if errors and draw(st.integers(0, 40)) < errors:
                al = 1 - al
            vars_.append([c, al, draw(st.sampled_from([1, 1, 2, 5, 10, 30]))])
        reads.append({"ind": ind, "vars": vars_})
        sides.append(side)
    order = sorted(range(nreads), key=lambda r: reads[r]["vars"][0][0])
    reads = [reads[r] for r in order]
    sides = [sides[r] for r in order]
    gt = [[list(H[i][k]) for k in range(ncols)] for i in range(n_ind)]
    distrust = draw(st.integers(0, 3)) == 0
    gl = [[[0 if g == sum(H[i][k]) else draw(st.sampled_from([3, 10, 30])) for g in range(3)] if distrust else [0, 0, 0]
           for k in range(ncols)] for i in range(n_ind)]
    recomb = [0] + [draw(st.sampled_from([1, 3, 10, 25])) for _ in range(ncols - 1)]
    gaps = draw(st.lists(st.integers(1, 30), min_size=ncols, max_size=ncols))
    return {"shape": shape, "n_ind": n_ind, "trios": trios, "ncols": ncols, "positions": list(itertools.accumulate(gaps)), "reads": reads,
            "gt": gt, "gl": gl, "distrust": distrust, "recomb": recomb, "use_positions": True, "sort": False, "planted_sides": sides,
            "errors": errors}


class WidePart:
    name = "wide"
    budget = {"quick": 2400, "thorough": 60000}
    guard = False

    def strategy(self, tier):
        @st.composite
        def case(draw):
            return gen_wide(draw)
        return case()

    def run(self, case, ctx):
        cost, part, tv, supers = run_impl(case)
        oracle = PedMEC(case)
        ncols = case["ncols"]
        cover = max(len(a) for a in oracle.active)
        ctx.label("shape-" + case["shape"])
        ctx.label("max-coverage-%s" % ("12-16" if cover <= 16 else "17-20"))
        inner = max(len(oracle.active[c]) for c in range(ncols - 1))
        if len(tv) != ncols or any(p is None for p in part):
            ctx.violation("wide:shape", "transmission vector %r, partition %r" % (tv, part))
            return
        wit = oracle.objective(part, tv)
        if wit != cost:
            alt = PedMEC(case, flip=True)
            if alt.objective(part, tv) != cost:
                ctx.violation("wide:witness", "coverage %d: returned partition / transmission evaluate to %r (other bit convention %r), reported cost %r" % (
                    cover, wit, alt.objective(part, tv), cost))
                return
            oracle = alt
        # upper bound: the planted bipartition with any constant transmission is a feasible solution
        ub = min(o.objective(case["planted_sides"], [t] * ncols) for o in (PedMEC(case), PedMEC(case, flip=True)) for t in range(o.T))
        if cost > ub:
            ctx.violation("wide:not-minimal:planted", "coverage %d: reported cost %r, the planted solution costs %r" % (cover, cost, ub))
        if not case["errors"] and ub == 0 and cost != 0:
            ctx.violation("wide:errorfree-nonzero", "error-free reads, reported cost %r" % cost)
        # local optimality: moving one read to the other side, or changing the transmission of one column, never helps
        for r in range(len(part)):
            alt_part = list(part)
            alt_part[r] = 1 - alt_part[r]
            v = oracle.objective(alt_part, tv)
            if v < cost:
                ctx.violation("wide:not-minimal:flip", "coverage %d: moving read %d to the other side lowers the objective from the reported %r to %r" % (cover, r, cost, v))
                break
        for c in range(ncols):
            for t in range(oracle.T):
                if t != tv[c]:
                    alt_tv = list(tv)
                    alt_tv[c] = t
                    v = oracle.objective(part, alt_tv)
                    if v < cost:
                        ctx.violation("wide:not-minimal:transmission", "changing the transmission of column %d to %d lowers the objective from %r to %r" % (c, t, cost, v))
                        break
        ctx.nontrivial(inner >= 12 and (cost > 0 or any(len(r["vars"]) < ncols for r in case["reads"])))
        if inner >= 17:
            ctx.label("inner-column-covered-by>=17")
        if cost > 0:
            ctx.label("cost>0")


PARTS = [RandomPart(), DeepPart(), ExhaustivePart(), WidePart()]
