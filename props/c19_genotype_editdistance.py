"""C19 - genotype indexing is a bijection; edit distance is true Levenshtein distance.

Oracles: the VCF specification's index formula (math.comb) and explicit enumeration of all
multisets for the genotype side; the textbook full-matrix Levenshtein DP for edit_distance.
"""
import copy, itertools, math
from hypothesis import strategies as st

from whatshap.core import Genotype, get_max_genotype_ploidy, get_max_genotype_alleles
from whatshap.align import edit_distance

ID = "C19"
RULE = ("Genotypes: every multiset of alleles for ploidy <= P over <= N alleles (P,N = 8,8 quick / 10,10 thorough; "
        "exhaustive), groups (ploidy, allele count) whose index set must equal range(C(p+n-1,p)), and Hypothesis-sampled "
        "same-ploidy pairs up to ploidy 14 / allele 15; non-trivial = ploidy >= 3 or an allele >= 2. Strings: every "
        "ordered pair over {A,C} up to length 7/9 and over {A,C,G} up to length 5/6 with every band -1,0..len+1 "
        "(exhaustive), and random pairs up to length 200 (mutated copies and independent strings, str and bytes); "
        "non-trivial = true distance >= 1. Distinct = distinct case.")
ASSUMPTIONS = [
    "the VCF specification's genotype ordering formula sum_k C(k + a_k - 1, k) is the definition of the canonical index",
    "state save/restore is exercised through __getstate__/__setstate__/__deepcopy__ (pickle.dumps raises by construction, see DESIGN C19)",
    "ordering and equality are compared between genotypes of the same ploidy only",
]

MAXP = 14
MAXA = 15


def vcf_index(alleles):
    return sum(math.comb(k + a - 1, k) for k, a in enumerate(sorted(alleles), start=1))


def lev(s, t):
    m, n = len(s), len(t)
    prev = list(range(n + 1))
    for i in range(1, m + 1):
        cur = [i] + [0] * n
        si = s[i - 1]
        for j in range(1, n + 1):
            cur[j] = min(prev[j] + 1, cur[j - 1] + 1, prev[j - 1] + (si != t[j - 1]))
        prev = cur
    return prev[n]


def check_genotype(alleles, ctx, tag="gt"):
    p = len(alleles)
    g = Genotype(list(alleles))
    want = vcf_index(alleles)
    idx = g.get_index()
    if idx != want:
        ctx.violation(tag + ":index", "Genotype(%r).get_index() = %d, VCF index %d" % (alleles, idx, want))
    vec = sorted(g.as_vector())
    if vec != sorted(alleles):
        ctx.violation(tag + ":as_vector", "Genotype(%r).as_vector() = %r" % (alleles, vec))
    if g.get_ploidy() != p:
        ctx.violation(tag + ":ploidy", "ploidy %d for %r" % (g.get_ploidy(), alleles))
    # index -> alleles
    h = Genotype([])
    h.__setstate__((want, p))
    if sorted(h.as_vector()) != sorted(alleles):
        ctx.violation(tag + ":index-to-alleles", "index %d ploidy %d -> %r, expected %r" % (want, p, sorted(h.as_vector()), sorted(alleles)))
    if h.get_index() != want:
        ctx.violation(tag + ":index-roundtrip", "index %d ploidy %d -> %r -> %d" % (want, p, sorted(h.as_vector()), h.get_index()))
    # state save / restore
    state = g.__getstate__()
    if tuple(state) != (idx, p):
        ctx.violation(tag + ":getstate", "__getstate__ %r" % (state,))
    r = Genotype([])
    r.__setstate__(state)
    if not (r == g) or (r != g) or sorted(r.as_vector()) != vec:
        ctx.violation(tag + ":setstate", "restored %r from %r of %r" % (sorted(r.as_vector()), state, alleles))
    d = copy.deepcopy(g)
    if not (d == g) or sorted(d.as_vector()) != vec:
        ctx.violation(tag + ":deepcopy", "deepcopy of %r gives %r" % (alleles, sorted(d.as_vector())))
    if hash(g) != hash(idx):
        ctx.violation(tag + ":hash", "hash mismatch for %r" % (alleles,))
    if g.is_homozygous() != (len(set(alleles)) == 1):
        ctx.violation(tag + ":is_homozygous", "%r" % (alleles,))
    if g.is_diploid_and_biallelic() != (p == 2 and max(alleles) <= 1):
        ctx.violation(tag + ":is_diploid_and_biallelic", "%r" % (alleles,))
    if g.is_none():
        ctx.violation(tag + ":is_none", "%r" % (alleles,))
    return g, idx


def check_pair(a, b, ctx, tag="gt"):
    ga, ia = check_genotype(a, ctx, tag)
    gb, ib = check_genotype(b, ctx, tag)
    wa, wb = vcf_index(a), vcf_index(b)
    if (ga == gb) != (wa == wb) or (ga != gb) != (wa != wb):
        ctx.violation(tag + ":eq", "%r == %r is %r, indices %d %d" % (a, b, ga == gb, wa, wb))
    if (ga < gb) != (wa < wb) or (gb < ga) != (wb < wa):
        ctx.violation(tag + ":lt", "%r < %r is %r, indices %d %d" % (a, b, ga < gb, wa, wb))
    if (hash(ga) == hash(gb)) != (wa == wb):
        ctx.violation(tag + ":hash-eq", "%r %r" % (a, b))
    if len({ga, gb}) != (1 if wa == wb else 2):
        ctx.violation(tag + ":set", "%r %r" % (a, b))


class GenotypeExhaustive:
    name = "gt-exhaustive"
    budget = {"quick": 1, "thorough": 1}
    bound = {"quick": (8, 8), "thorough": (10, 10)}

    def enumerate(self, tier):
        P, N = self.bound[tier]
        for p in range(1, P + 1):
            prev = None
            for alleles in itertools.combinations_with_replacement(range(N), p):
                yield {"a": list(alleles), "b": list(prev if prev is not None else alleles)}
                prev = alleles

    def run(self, case, ctx):
        a, b = case["a"], case["b"]
        ctx.nontrivial(len(a) >= 3 or max(a) >= 2)
        ctx.label("ploidy-%d" % len(a))
        check_pair(a, b, ctx)


class GenotypeGroups:
    name = "gt-groups"
    budget = {"quick": 1, "thorough": 1}
    bound = {"quick": (8, 8), "thorough": (10, 10)}

    def enumerate(self, tier):
        P, N = self.bound[tier]
        for p in range(1, P + 1):
            for n in range(1, N + 1):
                yield {"ploidy": p, "nalleles": n}
        # the documented limits: ploidy up to 14 with few alleles, 16 alleles with low ploidy
        for p, n in ((14, 2), (14, 3), (12, 4), (2, 16), (3, 16), (4, 16), (1, 16)):
            yield {"ploidy": p, "nalleles": n}

    def run(self, case, ctx):
        p, n = case["ploidy"], case["nalleles"]
        total = math.comb(p + n - 1, p)
        seen = {}
        for alleles in itertools.combinations_with_replacement(range(n), p):
            idx = Genotype(list(alleles)).get_index()
            if idx in seen:
                ctx.violation("gt:index-collision", "ploidy %d: %r and %r both have index %d" % (p, seen[idx], alleles, idx))
            seen[idx] = alleles
            ctx.unit("genotypes")
        if set(seen) != set(range(total)):
            missing = sorted(set(range(total)) - set(seen))[:5]
            extra = sorted(set(seen) - set(range(total)))[:5]
            ctx.violation("gt:index-gaps", "ploidy %d, %d alleles: missing indices %r, out of range %r" % (p, n, missing, extra))
        # index -> genotype for every index of the group
        for idx in range(total):
            h = Genotype([])
            h.__setstate__((idx, p))
            vec = sorted(h.as_vector())
            if len(vec) != p or (vec and max(vec) >= n) or vcf_index(vec) != idx:
                ctx.violation("gt:index-to-alleles", "index %d ploidy %d -> %r" % (idx, p, vec))
        ctx.nontrivial(p >= 3 or n >= 3)


class GenotypeSampled:
    name = "gt-sampled"
    budget = {"quick": 8000, "thorough": 400000}

    def strategy(self, tier):
        @st.composite
        def case(draw):
            p = draw(st.integers(1, MAXP))
            amax = draw(st.sampled_from([1, 2, 3, 5, 8, 12, 15]))
            a = draw(st.lists(st.integers(0, amax), min_size=p, max_size=p))
            if draw(st.booleans()):
                b = list(a)
                i = draw(st.integers(0, p - 1))
                b[i] = draw(st.integers(0, MAXA))
            else:
                b = draw(st.lists(st.integers(0, amax), min_size=p, max_size=p))
            return {"a": a, "b": b}
        return case()

    def run(self, case, ctx):
        a, b = case["a"], case["b"]
        ctx.nontrivial(len(a) >= 3 or max(a) >= 2)
        ctx.label("ploidy>6" if len(a) > 6 else "ploidy<=6")
        ctx.label("allele>5" if max(a) > 5 else "allele<=5")
        check_pair(a, b, ctx, "gt")


def check_strings(s, t, bands, ctx, also_bytes=True):
    d = lev(s, t)
    ctx.nontrivial(d >= 1)
    forms = [(s, t)]
    if also_bytes:
        forms.append((s.encode(), t.encode()))
    for x, y in forms:
        got = edit_distance(x, y)
        if got != d:
            ctx.violation("ed:unbanded", "edit_distance(%r, %r) = %r, Levenshtein %d" % (x, y, got, d))
        rev = edit_distance(y, x)
        if rev != d:
            ctx.violation("ed:unbanded", "edit_distance(%r, %r) = %r, Levenshtein %d (swapped)" % (y, x, rev, d))
        for e in bands:
            if e < 0:
                continue
            ctx.unit("banded-evaluations")
            for u, v in ((x, y), (y, x)):
                got = edit_distance(u, v, e)
                if d <= e:
                    if got != d:
                        ctx.violation("ed:banded-exact", "edit_distance(%r, %r, %d) = %r, true distance %d <= band" % (u, v, e, got, d))
                elif not got > e:
                    ctx.violation("ed:banded-larger", "edit_distance(%r, %r, %d) = %r, true distance %d > band" % (u, v, e, got, d))
    return d


class EditExhaustive:
    name = "ed-exhaustive"
    budget = {"quick": 1, "thorough": 1}
    bound = {"quick": (("AC", 7), ("ACG", 5)), "thorough": (("AC", 9), ("ACG", 6))}

    def enumerate(self, tier):
        for alpha, L in self.bound[tier]:
            words = [""]
            for n in range(1, L + 1):
                words.extend("".join(w) for w in itertools.product(alpha, repeat=n))
            for i, s in enumerate(words):
                for t in words[i:]:
                    yield {"s": s, "t": t}

    def run(self, case, ctx):
        s, t = case["s"], case["t"]
        bands = list(range(0, max(len(s), len(t)) + 2))
        check_strings(s, t, bands, ctx, also_bytes=False)


class EditRandom:
    name = "ed-random"
    budget = {"quick": 30000, "thorough": 1500000}

    def strategy(self, tier):
        @st.composite
        def case(draw):
            alpha = draw(st.sampled_from(["ACGT", "AC", "A", "ACGTN"]))
            n = draw(st.sampled_from([0, 1, 2, 3, 5, 8, 13, 21, 40, 80, 200]))
            n = draw(st.integers(0, n))
            s = draw(st.text(alphabet=alpha, min_size=n, max_size=n))
            mode = draw(st.sampled_from(["mutate", "mutate", "mutate", "independent", "shift"]))
            if mode == "independent":
                t = draw(st.text(alphabet=alpha, max_size=max(4, n + 5)))
            elif mode == "shift":
                k = draw(st.integers(0, 6))
                ins = draw(st.text(alphabet=alpha, min_size=k, max_size=k))
                t = ins + s[: max(0, len(s) - draw(st.integers(0, 6)))]
            else:
                t = list(s)
                for _ in range(draw(st.integers(1, 6))):
                    op = draw(st.sampled_from("sid"))
                    pos = draw(st.integers(0, len(t)))
                    if op == "i":
                        t.insert(pos, draw(st.sampled_from(alpha)))
                    elif t:
                        pos = min(pos, len(t) - 1)
                        if op == "d":
                            del t[pos]
                        else:
                            t[pos] = draw(st.sampled_from(alpha))
                t = "".join(t)
            bands = draw(st.lists(st.integers(0, 12), min_size=1, max_size=4, unique=True))
            return {"s": s, "t": t, "bands": bands}
        return case()

    def run(self, case, ctx):
        s, t = case["s"], case["t"]
        d = lev(s, t)
        bands = sorted(set(case["bands"]) | {max(0, d - 1), d, d + 1})
        check_strings(s, t, bands, ctx)
        ctx.label("len>=40" if max(len(s), len(t)) >= 40 else "len<40")
        ctx.label("d=0" if d == 0 else ("d<=3" if d <= 3 else "d>3"))


PARTS = [GenotypeExhaustive(), GenotypeGroups(), GenotypeSampled(), EditExhaustive(), EditRandom()]
