"""C07 - read selection never exceeds the coverage cap and leaves no admissible read out.

core part: whatshap.readselect.readselection on generated read sets; oracle = interval counting
(span of a read = first..last covered variant in the ordered list of the read set's positions).
cli part (added with the trace hook): reads handed to the solver per family.
"""
from hypothesis import strategies as st

from whatshap.core import Read, ReadSet
from whatshap.readselect import readselection

ID = "C07"
RULE = ("core: 3-16 variant columns, 2-45 reads with >= 2 variants each (contiguous, gapped / paired-like), base "
        "qualities, source ids 0-2, cap k in 1..7, preferred sources in {none,{1},{1,2},{0}}, bridging on/off; oracle: "
        "selected subset of indices, span coverage <= k at every column, and every unselected read spans a column that "
        "is already at k (maximality). Non-trivial = some column reaches k and at least one read is rejected. cli: "
        "whatshap phase on generated deep read sets (single samples and trios, --internal-downsampling k >= family "
        "size; a third of the cases add 1-3 phased VCFs as phase inputs (pseudo reads of preferred sources), half of those "
        "without any alignment file); the reads in the solver-instance trace of one family never span a variant more than k times. "
        "Distinct = distinct generated case.")
ASSUMPTIONS = [
    "every read covers at least two variants (readselection raises ValueError otherwise; phase filters such reads first)",
    "span coverage is measured over the positions present in the read set handed to readselection, as the code's coverage monitor does",
]


def build_readset(case):
    rs = ReadSet()
    for i, r in enumerate(case["reads"]):
        rd = Read("r%d" % i, 60, r["source"], 0)
        for col, allele, q in r["vars"]:
            rd.add_variant(case["positions"][col], allele, q)
        rs.add(rd)
    return rs


class CorePart:
    name = "core"
    budget = {"quick": 24000, "thorough": 600000}

    def strategy(self, tier):
        @st.composite
        def case(draw):
            ncols = draw(st.integers(3, 16))
            # positions: increasing, arbitrary gaps
            gaps = draw(st.lists(st.integers(1, 50), min_size=ncols, max_size=ncols))
            positions = []
            p = 0
            for g in gaps:
                p += g
                positions.append(p)
            nreads = draw(st.integers(2, 45))
            shape = draw(st.sampled_from(["short", "mixed", "long", "paired"]))
            reads = []
            for _ in range(nreads):
                a = draw(st.integers(0, ncols - 2))
                if shape == "short":
                    b = min(ncols - 1, a + draw(st.integers(1, 2)))
                elif shape == "long":
                    b = draw(st.integers(a + 1, ncols - 1))
                else:
                    b = min(ncols - 1, a + draw(st.integers(1, 6)))
                cols = list(range(a, b + 1))
                if shape == "paired" and len(cols) > 3:
                    # drop an inner stretch: paired-end like gap
                    i = draw(st.integers(1, len(cols) - 2))
                    j = draw(st.integers(i, len(cols) - 2))
                    cols = cols[:i] + cols[j + 1:]
                elif len(cols) > 2 and draw(st.integers(0, 3)) == 0:
                    inner = [c for c in cols[1:-1] if draw(st.booleans())]
                    cols = [cols[0]] + inner + [cols[-1]]
                src = draw(st.sampled_from([0, 0, 0, 1, 1, 2]))
                q = draw(st.sampled_from([1, 10, 20, 30, 30, 40]))
                reads.append({"source": src, "vars": [[c, draw(st.integers(0, 1)), q] for c in cols]})
            k = draw(st.sampled_from([1, 2, 2, 3, 3, 4, 5, 7]))
            pref = draw(st.sampled_from([None, None, [1], [1, 2], [0]]))
            return {"positions": positions, "reads": reads, "k": k, "preferred": pref,
                    "bridging": draw(st.booleans()), "sort": draw(st.booleans())}
        return case()

    def run(self, case, ctx):
        rs = build_readset(case)
        if case.get("sort"):
            rs.sort()
        # map index -> span over the read set's own ordered positions
        positions = sorted({case["positions"][c] for r in case["reads"] for c, _, _ in r["vars"]})
        col = {p: i for i, p in enumerate(positions)}
        spans = []
        for read in rs:
            ps = [v.position for v in read]
            spans.append((col[min(ps)], col[max(ps)]))
        k = case["k"]
        pref = set(case["preferred"]) if case["preferred"] is not None else None
        sel = readselection(rs, k, pref, case["bridging"])
        sel = set(sel)
        n = len(spans)
        if not sel <= set(range(n)):
            ctx.violation("core:not-a-subset", "selected %r of %d reads" % (sorted(sel), n))
            return
        cov = [0] * len(positions)
        for i in sel:
            for c in range(spans[i][0], spans[i][1] + 1):
                cov[c] += 1
        if cov and max(cov) > k:
            ctx.violation("core:cap-exceeded", "coverage %r exceeds k=%d; selected %r" % (cov, k, sorted(sel)))
        rejected = [i for i in range(n) if i not in sel]
        for i in rejected:
            if max(cov[spans[i][0]:spans[i][1] + 1]) < k:
                srcs = sorted({rs[j].source_id for j in range(n)})
                sig = "core:not-maximal"
                if pref is not None:
                    sig += ":preferred"
                ctx.violation(sig, "read %d (span %r, source %d) is left out although coverage in its span is %r < k=%d; "
                              "selected %r; preferred %r" % (i, spans[i], rs[i].source_id, cov[spans[i][0]:spans[i][1] + 1], k, sorted(sel), case["preferred"]))
                break
        at_cap = bool(cov) and max(cov) >= k
        ctx.nontrivial(at_cap and bool(rejected))
        ctx.label("preferred" if pref is not None else "no-preferred")
        ctx.label("bridging" if case["bridging"] else "no-bridging")
        ctx.label("at-cap+rejected" if at_cap and rejected else "all-selected-or-below-cap")
        if pref is not None and any(rs[i].source_id in pref for i in range(n)) and any(rs[i].source_id not in pref for i in range(n)):
            ctx.label("mixed-preferred-and-other-sources")


class CliPart:
    """whatshap phase on deep read sets: reads handed to the solver for one family never span a variant more than k times"""
    name = "cli"
    budget = {"quick": 640, "thorough": 12000}

    def strategy(self, tier):
        from vlib import pipeline as P
        from props.c03_components import gen_trio_case

        @st.composite
        def case(draw):
            fam = draw(st.sampled_from(["single", "single", "trio"]))
            if fam == "trio":
                c = gen_trio_case(draw, depth=(6, 30), read_len=(60, 300), paired_share=20, skip_share=5, clip_share=0, eqx_share=0,
                                  ncontigs=(1, 1), length=(400, 900))
                k = draw(st.sampled_from([3, 4, 5, 6, 9, 15]))
            else:
                c = P.gen_case(draw, nsamples=(1, 2), depth=(6, 40), read_len=(60, 300), paired_share=20, skip_share=5,
                               clip_share=0, eqx_share=0, ncontigs=(1, 1))
                k = draw(st.sampled_from([1, 2, 3, 5, 8, 15]))
            c["family"] = fam
            c["k"] = k
            # phased VCFs as phase inputs: their phase sets become pseudo reads of preferred sources, which the selection
            # takes first; the cap must hold for pseudo reads and alignments together - also when there is no alignment
            # file at all (up to three VCFs, so that 2 pseudo reads per VCF and set exceed small caps)
            if draw(st.integers(0, 2)) == 0:
                c["phase_vcfs"] = [{s: {cc["name"]: {vi: draw(st.integers(1, 3)) for vi in range(len(c["variants"][cc["name"]]))
                                                     if draw(st.integers(0, 3)) != 0}
                                        for cc in c["contigs"]} for s in c["samples"]}
                                   for _ in range(draw(st.integers(1, 3)))]
                c["no_bam"] = draw(st.booleans())
            return c
        return case()

    def run(self, case, ctx):
        import os
        from vlib import pipeline as P, genome as G
        d = ctx.tmp()
        paths, reads = P.materialise(case, d)
        if "bam" not in paths:
            return
        kw = {}
        if case["family"] == "trio":
            kw["ped"] = G.write_ped([["father", "mother", "child"]], os.path.join(d, "trio.ped"))
        inputs = [] if case.get("no_bam") and case.get("phase_vcfs") else [paths["bam"]]
        for n, sub in enumerate(case.get("phase_vcfs", [])):
            ph = {s: {cn: {int(vi): ps for vi, ps in vis.items()} for cn, vis in per.items()} for s, per in sub.items()}
            inputs.append(G.write_vcf(case, os.path.join(d, "prior_phase%d.vcf" % n), phased=ph))
        if case.get("phase_vcfs"):
            ctx.label("phased-vcf-inputs-%d%s" % (len(case["phase_vcfs"]), "-without-alignments" if case.get("no_bam") else ""))
        out, trace = P.run_phase(d, paths["vcf"], inputs, reference=paths["ref"], max_coverage=case["k"], **kw)
        k = case["k"]
        nt = False
        if case.get("phase_vcfs") and any(r["source_id"] >= (0 if case.get("no_bam") else 1) for t in trace for r in t["reads"]):
            ctx.label("pseudo-reads-selected")
        for t in trace:
            pos = t["accessible_positions"]
            idx = {p: i for i, p in enumerate(pos)}
            cov = [0] * len(pos)
            for r in t["reads"]:
                a, b = idx[r["variants"][0][0]], idx[r["variants"][-1][0]]
                if a > b:
                    ctx.violation("cli:unsorted-read", "read %s has unsorted variants" % r["name"])
                for i in range(a, b + 1):
                    cov[i] += 1
            ctx.unit("solver-instances")
            if cov and max(cov) > k:
                ctx.violation("cli:cap-exceeded", "family %r on %s: %d reads span a variant, --internal-downsampling is %d (per sample %d)" % (
                    t["family"], t["chromosome"], max(cov), k, t["max_coverage_per_sample"]))
            if cov and max(cov) >= max(1, k // len(t["family"])):
                nt = True
            if t["max_coverage"] != k:
                ctx.violation("cli:trace-cap", "trace reports cap %r, option was %r" % (t["max_coverage"], k))
        ctx.nontrivial(nt)
        ctx.label("family-" + case["family"])


PARTS = [CorePart(), CliPart()]
