"""C08 - genotyping reports the exact posterior of its HMM; GT, GL and GQ agree.

core part: whatshap.core.GenotypeDPTable vs. vlib.oracles.GenotypeHMM (plain summation).
writer part: GenotypeVcfWriter.write_genotypes / determine_genotype arithmetic on generated tables.
cli part (props/c08 uses vlib.genome): run_genotype on generated BAM/VCF, GT/GL/GQ consistency.
"""
import io, math, os
from hypothesis import strategies as st

from whatshap.core import Read, ReadSet, Pedigree, GenotypeDPTable, NumericSampleIds, Genotype, PhredGenotypeLikelihoods
from vlib.oracles import GenotypeHMM

ID = "C08"
RULE = ("core: single / trio / quartet, 2-5 columns (up to 10 in the share aimed at the sqrt recomputation path), 1-6 "
        "reads with >= 2 variants each, weights incl. 0, >= 256 and gaps, prior triples random / near-degenerate / "
        "uniform, recombination costs 1..60, explicit or implicit position list; oracle: plain forward-backward "
        "summation over all bipartitions, |impl - oracle| <= 1e-9 per entry and each triple sums to 1 +- 1e-9. "
        "Non-trivial = at least two reads overlap in a column with conflicting alleles, or a non-uniform prior. "
        "writer: generated likelihood tables written by GenotypeVcfWriter and re-read with htslib: sum 10^GL = 1 +- "
        "1e-4, GT = unique arg-max above threshold else missing, GQ = min(round(-10 log10(1 - p_GT)), 10000) +- 1; "
        "non-trivial = a call whose maximum is not unique or below threshold. Distinct = distinct generated case.")
ASSUMPTIONS = [
    "every read covers >= 2 variants (the genotyping CLI filters others; the backward iterator asserts it)",
    "emission constants (error 10^(-q/10), 0.9999 for weight 0), allele-assignment prior normalisation and the row-normalised Bernoulli transition are the documented model definition shared by oracle and code",
    "near-ties (two largest likelihoods within 1e-5) are not judged for GT",
]

SHAPES = {"single": (1, []), "trio": (3, [[0, 1, 2]]), "quartet": (4, [[0, 1, 2], [0, 1, 3]])}


def run_impl(inst):
    ids = NumericSampleIds()
    order = inst.get("order") or list(range(inst["n_ind"]))
    for i in order:
        ids["s%d" % i]
    rs = ReadSet()
    pos = inst["positions"]
    for r, rd in enumerate(inst["reads"]):
        read = Read("r%d" % r, 50, 0, ids["s%d" % rd["ind"]])
        for col, al, q in rd["vars"]:
            read.add_variant(pos[col], al, q)
        rs.add(read)
    rs.sort()
    ped = Pedigree(ids)
    for i in order:
        ped.add_individual("s%d" % i, [Genotype([]) for _ in range(inst["ncols"])],
                           [PhredGenotypeLikelihoods([float(x) for x in t]) for t in inst["gl"][i]])
    for f, m, c in inst["trios"]:
        ped.add_relationship("s%d" % f, "s%d" % m, "s%d" % c)
    positions = list(pos) if inst["use_positions"] else None
    dp = GenotypeDPTable(ids, rs, list(inst["recomb"]), ped, positions)
    return [[list(dp.get_genotype_likelihoods("s%d" % i, c)) for c in range(inst["ncols"])] for i in range(inst["n_ind"])]


def permuted(inst):
    order = inst.get("order") or list(range(inst["n_ind"]))
    new = {old: k for k, old in enumerate(order)}
    o = dict(inst)
    o["trios"] = [[new[f], new[m], new[c]] for f, m, c in inst["trios"]]
    o["reads"] = [{"ind": new[r["ind"]], "vars": r["vars"]} for r in inst["reads"]]
    o["gl"] = [inst["gl"][old] for old in order]
    return o, order


def gen_instance(draw, deep):
    shape = draw(st.sampled_from(["single", "single", "trio", "trio", "quartet"]))
    n_ind, trios = SHAPES[shape]
    if deep:
        ncols = draw(st.integers(5, 10))
        maxreads = 4 if shape != "quartet" else 3
    else:
        ncols = draw(st.integers(2, 5))
        maxreads = 6 if shape != "quartet" else 4
    nreads = draw(st.integers(1, maxreads))
    reads = []
    for _ in range(nreads):
        a = draw(st.integers(0, ncols - 2))
        b = draw(st.integers(a + 1, ncols - 1))
        cols = [a] + [x for x in range(a + 1, b) if draw(st.integers(0, 3)) > 0] + [b]
        reads.append({"ind": draw(st.integers(0, n_ind - 1)),
                      "vars": [[c, draw(st.integers(0, 1)), draw(st.sampled_from([0, 1, 5, 10, 20, 30, 60, 255, 256, 300]))] for c in cols]})
    reads.sort(key=lambda r: r["vars"][0][0])
    gl = []
    for i in range(n_ind):
        row = []
        for k in range(ncols):
            kind = draw(st.sampled_from(["random", "random", "uniform", "degenerate"]))
            if kind == "uniform":
                row.append([1 / 3, 1 / 3, 1 / 3])
            elif kind == "degenerate":
                j = draw(st.integers(0, 2))
                x = [1e-6, 1e-6, 1e-6]
                x[j] = 1 - 2e-6
                row.append(x)
            else:
                x = [draw(st.integers(1, 100)) for _ in range(3)]
                s = sum(x)
                row.append([v / s for v in x])
        gl.append(row)
    recomb = [0] + [draw(st.sampled_from([1, 3, 10, 20, 60])) for _ in range(ncols - 1)]
    gaps = draw(st.lists(st.integers(1, 30), min_size=ncols, max_size=ncols))
    positions = []
    p = 0
    for g in gaps:
        p += g
        positions.append(p)
    inst = {"shape": shape, "n_ind": n_ind, "trios": trios, "ncols": ncols, "positions": positions, "reads": reads,
            "gl": gl, "recomb": recomb, "use_positions": draw(st.booleans()),
            "order": draw(st.permutations(list(range(n_ind))))}
    if not inst["use_positions"]:
        covered = sorted({v[0] for r in reads for v in r["vars"]})
        remap = {c: k for k, c in enumerate(covered)}
        inst["ncols"] = len(covered)
        inst["positions"] = [positions[c] for c in covered]
        inst["reads"] = [{"ind": r["ind"], "vars": [[remap[c], a, w] for c, a, w in r["vars"]]} for r in reads]
        inst["gl"] = [[row[c] for c in covered] for row in gl]
        inst["recomb"] = [recomb[c] for c in covered]
    return inst


class CorePart:
    name = "core"
    budget = {"quick": 8000, "thorough": 150000}
    deep = False

    def strategy(self, tier):
        deep = self.deep

        @st.composite
        def case(draw):
            return gen_instance(draw, deep)
        return case()

    def run(self, case, ctx):
        oinst, order = permuted(case)
        expected = GenotypeHMM(oinst).posterior()
        got = run_impl(case)
        ctx.label("shape-" + case["shape"])
        ctx.label("explicit-positions" if case["use_positions"] else "positions-from-reads")
        if case["ncols"] >= 9:
            ctx.label("k=3")
        elif case["ncols"] >= 4:
            ctx.label("k=2")
        if expected is None:
            ctx.label("zero-evidence")
            return
        worst = 0.0
        for k, old in enumerate(order):
            for c in range(case["ncols"]):
                g = got[old][c]
                e = expected[k][c]
                if not abs(sum(g) - 1) <= 1e-9:
                    ctx.violation("core:not-normalised", "individual %d column %d: %r sums to %r" % (old, c, g, sum(g)))
                d = max(abs(g[j] - e[j]) for j in range(3))
                worst = max(worst, d)
                if not d <= 1e-9:
                    ctx.violation("core:posterior", "individual %d column %d: reported %r, HMM posterior %r" % (old, c, g, e))
                    break
        conflict = False
        for c in range(case["ncols"]):
            als = [v[1] for r in case["reads"] for v in r["vars"] if v[0] == c]
            if len(als) >= 2 and len(set(als)) == 2:
                conflict = True
        nonuniform = any(abs(x - 1 / 3) > 1e-9 for row in case["gl"] for t in row for x in t)
        ctx.nontrivial(conflict or nonuniform)
        if conflict:
            ctx.label("conflicting-reads")


class DeepPart(CorePart):
    name = "core-deep"
    budget = {"quick": 2400, "thorough": 40000}
    deep = True


# ------------------------------------------------------------------ writer part

VCF_HEADER = """##fileformat=VCFv4.2
##contig=<ID=chr1,length=10000>
##FORMAT=<ID=GT,Number=1,Type=String,Description="Genotype">
##FORMAT=<ID=DP,Number=1,Type=Integer,Description="Depth">
#CHROM\tPOS\tID\tREF\tALT\tQUAL\tFILTER\tINFO\tFORMAT\t"""


class WriterPart:
    """determine_genotype + GenotypeVcfWriter.write_genotypes on generated likelihood tables"""
    name = "writer"
    budget = {"quick": 3200, "thorough": 60000}

    def strategy(self, tier):
        @st.composite
        def case(draw):
            nvar = draw(st.integers(1, 6))
            nsamples = draw(st.integers(1, 3))
            thr = draw(st.sampled_from([0, 0, 1, 3, 10, 13, 20, 50]))
            rows = []
            for _ in range(nvar):
                calls = []
                for _ in range(nsamples):
                    kind = draw(st.sampled_from(["random", "random", "tie", "sharp", "none"]))
                    if kind == "none":
                        calls.append(None)
                        continue
                    if kind == "tie":
                        a = draw(st.integers(1, 50))
                        b = draw(st.integers(0, a))
                        x = [a, a, b]
                        x = draw(st.permutations(x))
                    elif kind == "sharp":
                        e = draw(st.sampled_from([1e-3, 1e-6, 1e-12, 1e-30, 0.0]))
                        x = [e, e, e]
                        x[draw(st.integers(0, 2))] = 1.0
                    else:
                        x = [draw(st.integers(0, 1000)) for _ in range(3)]
                        if sum(x) == 0:
                            x = [1, 1, 1]
                    s = float(sum(x))
                    calls.append([v / s for v in x])
                rows.append(calls)
            return {"nsamples": nsamples, "threshold": thr, "rows": rows}
        return case()

    def run(self, case, ctx):
        import pysam
        from whatshap.vcf import GenotypeVcfWriter, VcfReader
        from whatshap.cli.genotype import determine_genotype
        d = ctx.tmp()
        samples = ["s%d" % i for i in range(case["nsamples"])]
        inp = os.path.join(d, "in.vcf")
        with open(inp, "w") as f:
            f.write(VCF_HEADER + "\t".join(samples) + "\n")
            for k in range(len(case["rows"])):
                f.write("chr1\t%d\t.\tA\tC\t30\tPASS\t.\tGT:DP\t%s\n" % (100 * (k + 1), "\t".join("0/1:7" for _ in samples)))
        thr = case["threshold"]
        gt_prob = 1.0 - 10 ** (-thr / 10.0)
        out = os.path.join(d, "out.vcf")
        with VcfReader(inp, ignore_genotypes=True) as reader:
            tables = list(reader)
        table = tables[0]
        expect = {}
        for si, s in enumerate(samples):
            gls, gts = [], []
            for k, calls in enumerate(case["rows"]):
                t = calls[si]
                if t is None:
                    gls.append(None)
                    gts.append(Genotype([]))
                else:
                    pl = PhredGenotypeLikelihoods(list(t))
                    gls.append(pl)
                    gts.append(determine_genotype(pl, gt_prob))
                expect[(k, s)] = t
            table.set_genotype_likelihoods_of(s, gls)
            table.set_genotypes_of(s, gts)
        with open(out, "w") as fo:
            with GenotypeVcfWriter(command_line=None, in_path=inp, out_file=fo) as w:
                w.write_genotypes("chr1", table, False)
        nt = False
        with pysam.VariantFile(out) as vf:
            recs = list(vf)
        if len(recs) != len(case["rows"]):
            ctx.violation("writer:records", "%d records written for %d" % (len(recs), len(case["rows"])))
            return
        for k, rec in enumerate(recs):
            for s in samples:
                call = rec.samples[s]
                t = expect[(k, s)]
                gl = call["GL"]
                gt = call["GT"]
                gq = call["GQ"]
                if gl is None or len(gl) != 3 or any(x is None for x in gl):
                    ctx.violation("writer:gl-missing", "GL %r" % (gl,))
                    continue
                tot = sum(10 ** x for x in gl)
                if not abs(tot - 1) <= 1e-4:
                    ctx.violation("writer:gl-sum", "record %d sample %s: sum 10^GL = %r (GL %r)" % (k, s, tot, gl))
                if t is None:
                    # not genotyped: uniform GL, no GT
                    if any(abs(10 ** x - 1 / 3) > 1e-4 for x in gl) or any(a is not None for a in (gt or ())):
                        ctx.violation("writer:ungenotyped", "record %d sample %s not genotyped but GT %r GL %r" % (k, s, gt, gl))
                    continue
                for x, p in zip(gl, t):
                    want = max(math.log10(p), -1000) if p > 0 else -1000
                    if abs(x - want) > 1e-4 * max(1, abs(want)):
                        ctx.violation("writer:gl-value", "record %d sample %s: GL %r for probabilities %r" % (k, s, gl, t))
                        break
                srt = sorted(t, reverse=True)
                near_tie = abs(srt[0] - srt[1]) <= 1e-5 and srt[0] != srt[1]
                unique_max = srt[0] > srt[1]
                called = gt is not None and len(gt) == 2 and all(a is not None for a in gt)
                if near_tie or abs(srt[0] - gt_prob) <= 1e-9:
                    ctx.label("inconclusive-near-tie")
                else:
                    should_call = unique_max and srt[0] > gt_prob
                    if not should_call:
                        nt = True
                    if called != should_call:
                        ctx.violation("writer:gt-call", "record %d sample %s: GT %r for probabilities %r, threshold %r" % (k, s, gt, t, gt_prob))
                    elif called:
                        idx = gt[0] + gt[1]
                        if t[idx] != srt[0]:
                            ctx.violation("writer:gt-argmax", "record %d sample %s: GT %r is not the arg-max of %r" % (k, s, gt, t))
                if called:
                    idx = gt[0] + gt[1]
                    rest = sum(t[j] for j in range(3) if j != idx)
                    want = min(round(-10.0 * math.log10(rest)), 10000) if rest > 0 else 10000
                    if gq is None or abs(gq - want) > 1:
                        ctx.violation("writer:gq", "record %d sample %s: GQ %r, expected %r for %r" % (k, s, gq, want, t))
                elif gq is not None:
                    ctx.violation("writer:gq-without-gt", "record %d sample %s: GQ %r with GT %r" % (k, s, gq, gt))
        ctx.nontrivial(nt)


class CliPart:
    """run_genotype on generated BAM/VCF: GT, GL and GQ of the output VCF must agree with each other"""
    name = "cli"
    budget = {"quick": 640, "thorough": 12000}

    def strategy(self, tier):
        from vlib import pipeline as P
        from props.c03_components import gen_trio_case

        @st.composite
        def case(draw):
            ped = draw(st.integers(0, 2)) == 0
            if ped:
                c = gen_trio_case(draw, depth=(1, 6), read_len=(60, 250), paired_share=10, clip_share=0, eqx_share=0, ncontigs=(1, 1),
                                  length=(300, 700), kinds=("snv", "snv", "ins", "del"))
            else:
                c = P.gen_case(draw, nsamples=(1, 2), ncontigs=(1, 2), length=(300, 700), depth=(1, 8), read_len=(60, 250), paired_share=10,
                               clip_share=0, eqx_share=0, kinds=("snv", "snv", "ins", "del"))
            c["ped"] = ped
            c["noise"] = draw(st.integers(0, 10 ** 6))
            c["opts"] = {"threshold": draw(st.sampled_from([0, 0, 3, 10, 20, 50])), "nopriors": draw(st.booleans()),
                         "only_snvs": draw(st.integers(0, 4)) == 0, "constant": draw(st.sampled_from([0.0, 0.0, 0.1])),
                         "chromosomes": [c["contigs"][draw(st.integers(0, len(c["contigs"]) - 1))]["name"]] if draw(st.integers(0, 3)) == 0 else None,
                         "samples": [draw(st.sampled_from(c["samples"]))] if not ped and draw(st.integers(0, 3)) == 0 else None,
                         "prioroutput": draw(st.integers(0, 2)) == 0}
            return c
        return case()

    def run(self, case, ctx):
        import contextlib, io as _io
        import pysam
        from vlib import genome as G, pipeline as P
        from whatshap.cli.genotype import run_genotype
        from props.c16_determinism import noisy_reads
        d = ctx.tmp()
        reads = noisy_reads(case, G.render_specs(case, case["read_specs"]), case["noise"])
        if not reads:
            return
        ref = G.write_fasta(case["contigs"], os.path.join(d, "ref.fa"))
        vcf = G.write_vcf(case, os.path.join(d, "in.vcf"))
        bam = G.write_bam(case, reads, os.path.join(d, "reads.bam"))
        out = os.path.join(d, "out.vcf")
        o = case["opts"]
        kw = {}
        if case["ped"]:
            kw["ped"] = G.write_ped([["father", "mother", "child"]], os.path.join(d, "fam.ped"))
        if o.get("chromosomes"):
            kw["chromosomes"] = list(o["chromosomes"])
        if o.get("samples"):
            kw["samples"] = list(o["samples"])
        prior = os.path.join(d, "prior.vcf") if o.get("prioroutput") and not o["nopriors"] else None
        if prior:
            kw["prioroutput"] = prior
        buf = _io.StringIO()
        with contextlib.redirect_stdout(buf), contextlib.redirect_stderr(buf):
            with open(out, "w") as fo:
                run_genotype([bam], vcf, reference=ref, output=fo, gt_qual_threshold=o["threshold"], nopriors=o["nopriors"],
                             only_snvs=o["only_snvs"], constant=o["constant"], write_command_line_header=False, **kw)
        P.check_readable(out, "genotype")
        gt_prob = 1.0 - 10 ** (-o["threshold"] / 10.0)
        nt = False
        sel_chroms = set(o.get("chromosomes") or [c["name"] for c in case["contigs"]])
        sel_samples = set(o.get("samples") or case["samples"])
        # chromosomes that were not requested are copied
        if o.get("chromosomes"):
            from vlib import vcfmodel as vm
            _, a = vm.read_vcf(vcf)
            _, b = vm.read_vcf(out)
            a = [r for r in a if r["chrom"] not in sel_chroms]
            b = [r for r in b if r["chrom"] not in sel_chroms]
            for kind, msg in vm.diff_records(a, b, ignore_format=(), compare_gt="exact"):
                ctx.violation("cli:unselected-chromosome:" + kind, msg)
            ctx.label("chromosome-selection")
        files = [("", out)] + ([(":prior", prior)] if prior else [])
        for suffix, path in files:
          if suffix:
            P.check_readable(path, "genotype --prioroutput")
            ctx.label("prior-output")
          with pysam.VariantFile(path) as vf:
            for rec in vf:
                for s, call in rec.samples.items():
                    gl = call["GL"] if "GL" in rec.format.keys() else None
                    gt = call["GT"]
                    gq = call["GQ"] if "GQ" in rec.format.keys() else None
                    where = "%s:%d sample %s%s" % (rec.chrom, rec.pos, s, suffix)
                    if (rec.chrom not in sel_chroms or s not in sel_samples) and (gl is None or any(x is None for x in gl)):
                        continue   # not a genotyped call
                    if gl is None or any(x is None for x in gl):
                        ctx.violation("cli:gl-missing", "%s has no GL (%r)" % (where, gl))
                        continue
                    p = [10 ** x for x in gl]
                    if not abs(sum(p) - 1) <= 1e-4:
                        ctx.violation("cli:gl-sum", "%s: sum 10^GL = %r (GL %r)" % (where, sum(p), gl))
                        continue
                    ctx.unit("calls-judged")
                    called = gt is not None and all(a is not None for a in gt) and len(gt) == 2
                    if len(p) != 3:
                        if called:
                            ctx.violation("cli:gt-on-multiallelic", "%s: GT %r with %d likelihoods" % (where, gt, len(p)))
                        continue
                    srt = sorted(p, reverse=True)
                    if srt[0] - srt[1] <= 1e-5 * max(srt[0], 1e-300) + 1e-12 or abs(srt[0] - gt_prob) <= 1e-5:
                        ctx.label("inconclusive-near-tie")
                    else:
                        should = srt[0] > gt_prob
                        if not should:
                            nt = True
                        if called != should:
                            ctx.violation("cli:gt-call", "%s: GT %r, likelihoods %r, threshold probability %r" % (where, gt, p, gt_prob))
                        elif called and p[gt[0] + gt[1]] != srt[0]:
                            ctx.violation("cli:gt-argmax", "%s: GT %r is not the arg-max of %r" % (where, gt, p))
                    if called:
                        idx = gt[0] + gt[1]
                        rest = sum(p[j] for j in range(3) if j != idx)
                        want = min(round(-10.0 * math.log10(rest)), 10000) if rest > 0 else 10000
                        if gq is None or abs(gq - want) > 1:
                            # rest is computed from rounded GLs: allow the rounding boundary
                            ctx.violation("cli:gq", "%s: GQ %r, expected %r from GL %r" % (where, gq, want, gl))
                        if srt[0] < 0.99:
                            nt = True
                    elif gq is not None:
                        ctx.violation("cli:gq-without-gt", "%s: GQ %r without GT" % (where, gq))
        ctx.nontrivial(nt)
        ctx.label("ped" if case["ped"] else "unrelated")
        ctx.label("nopriors" if o["nopriors"] else "priors")


PARTS = [CorePart(), DeepPart(), WriterPart(), CliPart()]
