"""C04 - the phased VCF is the input VCF plus phase information and nothing else."""
import os
from hypothesis import strategies as st

from vlib import genome as G, pipeline as P, vcfmodel as vm

ID = "C04"
RULE = ("A pipeline case (reference, well separated biallelic variants, true haplotypes, reads error-free or with substitution errors at SNV sites) is decorated into "
        "a full-variety VCF: extra samples without reads, arbitrary INFO / FORMAT fields and FILTERs, ID and QUAL values, "
        "missing and partially missing GTs, unsorted unphased GTs ('1/0'), multi-ALT, symbolic and ALT-less records, "
        "duplicate positions, pre-existing phasing (PS, HP, PQ) on target and non-target samples; options --sample, "
        "--chromosome, --tag, --only-snvs, --distrust-genotypes (a fifth of the cases, sometimes with --include-homozygous). Oracle: both files are parsed with htslib and compared record by record: site "
        "fields, samples and every FORMAT value other than GT order/phase flag, PS and HP identical; GT allele multiset "
        "identical (with --distrust-genotypes: a genotype may be re-called only on a record with one non-symbolic ALT and only into a "
        "diploid genotype over REF/ALT); non-selected samples and chromosomes untouched; newly phased calls are heterozygous, biallelic, "
        "non-symbolic and SNVs under --only-snvs; header definitions preserved. "
        "Non-trivial = at least one record edited and at least one record of a kind the writer must skip in the same file. "
        "Distinct = distinct generated case.")
ASSUMPTIONS = [
    "complete headers, diploid genotypes, Integer-typed PS (the writer documents that it refuses String-typed PS)",
    "a FORMAT key that is absent and one whose value is missing are the same value",
    "float values compared at 5 significant digits (htslib re-serialises them)",
]


def gen(draw):
    case = P.gen_case(draw, nsamples=(1, 2), ncontigs=(1, 3), length=(300, 800), depth=(2, 8), paired_share=10, clip_share=0, eqx_share=0)
    bam_samples = list(case["samples"])
    extra = ["x%d" % i for i in range(draw(st.integers(0, 2)))]
    order = draw(st.permutations(bam_samples + extra))
    info_defs = [d for d in vm.EXTRA_INFO if draw(st.booleans())]
    case["read_noise"] = draw(st.integers(0, 10 ** 6)) if draw(st.integers(0, 2)) == 0 else None
    distrust = draw(st.integers(0, 4)) == 0
    # PL (phred genotype likelihoods) is read by the tool only when genotypes are distrusted
    fmt_extra = [d for d in vm.EXTRA_FORMAT if (d[0] != "PL" and draw(st.integers(0, 2)) == 0) or (d[0] == "PL" and distrust and draw(st.booleans()))]
    filters = ["q10", "lowcov"] if draw(st.booleans()) else []
    pre = {s: draw(st.sampled_from(["none", "none", "PS", "HP"])) for s in order}
    use_pq = draw(st.booleans())
    format_defs = [["GT", "1", "String"], ["PS", "1", "Integer"], ["HP", ".", "String"]] + ([["PQ", "1", "Float"]] if use_pq else []) + fmt_extra
    records = []
    kinds = []
    for c in case["contigs"]:
        cname = c["name"]
        real = [(v["pos"], vi, v) for vi, v in enumerate(case["variants"][cname])]
        for pos, vi, v in real:
            # optional decoy record before the real one (different position)
            r = draw(st.integers(0, 11))
            decoys_before = []
            if r == 0 and pos > 3:
                decoys_before.append(("multi", pos - 2))
            elif r == 1 and pos > 3:
                decoys_before.append(("symbolic", pos - 2))
            elif r == 2 and pos > 3:
                decoys_before.append(("noalt", pos - 2))
            elif r == 3:
                decoys_before.append(("dup-before", pos))
            for kind, p in decoys_before:
                records.append(make_record(draw, case, cname, p, kind, None, None, order, bam_samples, info_defs, fmt_extra, filters, pre, use_pq))
                kinds.append(kind)
            records.append(make_record(draw, case, cname, pos, "real", vi, v, order, bam_samples, info_defs, fmt_extra, filters, pre, use_pq))
            kinds.append("real-after-dup" if decoys_before and decoys_before[0][0] == "dup-before" else "real")
            if draw(st.integers(0, 11)) == 0:
                records.append(make_record(draw, case, cname, pos, "dup-after", None, None, order, bam_samples, info_defs, fmt_extra, filters, pre, use_pq))
                kinds.append("dup-after")
    symbolic = any(k == "symbolic" for k in kinds)
    if symbolic and not any(d[0] == "END" for d in info_defs):
        info_defs = info_defs + [["END", "1", "Integer"]]
    model = {"contigs": [[c["name"], len(c["seq"])] for c in case["contigs"]], "samples": list(order), "info_defs": info_defs,
             "format_defs": format_defs, "filters": filters, "records": records}
    case["model"] = model
    case["kinds"] = kinds
    chroms = [c["name"] for c in case["contigs"]]
    case["opts"] = {"tag": draw(st.sampled_from(["PS", "PS", "HP"])), "only_snvs": draw(st.integers(0, 4)) == 0,
                    "samples": draw(st.sampled_from([None, None] + [[s] for s in bam_samples])),
                    "chromosomes": draw(st.sampled_from([None, None] + [[c] for c in chroms])),
                    "distrust": distrust, "include_homozygous": draw(st.integers(0, 5)) == 0}
    return case


def make_record(draw, case, cname, pos, kind, vi, v, order, bam_samples, info_defs, fmt_extra, filters, pre, use_pq):
    if kind == "real":
        ref, alts = v["ref"], [v["alt"]]
    elif kind == "multi":
        ref, alts = "A", ["C", "G"]
    elif kind == "symbolic":
        ref, alts = "A", ["<DEL>"]
    elif kind == "noalt":
        ref, alts = "A", []
    else:
        # duplicates of a position: SNV, insertion, multi-ALT, MNP, and a substitution written with a padding base
        ref, alts = draw(st.sampled_from([("A", ["T"]), ("C", ["CA"]), ("G", ["C", "T"]), ("AC", ["GT"]), ("CA", ["CG"])]))
    seq = next(c["seq"] for c in case["contigs"] if c["name"] == cname)
    if kind != "real":
        ref = seq[pos] + ref[1:] if pos < len(seq) else ref
        alts = [a if a.startswith("<") else (a if a[0] != ref[0] or len(a) > 1 else a) for a in alts]
        alts = [a for a in alts if a != ref]
    nalts = len(alts)
    rec_extra = [d for d in fmt_extra if draw(st.booleans())]
    calls = []
    any_ps = any_hp = any_pq = False
    for s in order:
        call = {}
        if kind == "real" and s in bam_samples:
            al = [h[vi] for h in case["haps"][s][cname]]
            r = draw(st.integers(0, 19))
            if r == 0:
                gt = "./."
            elif r == 1:
                gt = "%d/." % al[0]
            elif r == 2:
                gt = "."
            else:
                a, b = (al[0], al[1]) if draw(st.booleans()) else (al[1], al[0])
                gt = "%d/%d" % (a, b)
        else:
            amax = max(nalts, 0)
            a, b = draw(st.integers(0, amax)), draw(st.integers(0, amax))
            gt = draw(st.sampled_from(["%d/%d" % (a, b)] * 6 + ["./.", "."]))
        # pre-existing phasing; sometimes even on a partially missing genotype ('.|1:77')
        if pre[s] == "PS" and gt.count("/") == 1 and "." in gt and draw(st.integers(0, 1)) == 0:
            gt = gt.replace("/", "|")
            call["PS"] = str(draw(st.sampled_from([1, 77])))
            any_ps = True
        elif pre[s] != "none" and "." not in gt and draw(st.integers(0, 2)) > 0:
            a, b = gt.split("/")
            if a != b or draw(st.integers(0, 5)) == 0:
                sid = draw(st.sampled_from([1, 77, 1000 + 0]))
                if pre[s] == "PS":
                    gt = "%s|%s" % (a, b)
                    call["PS"] = str(sid)
                    any_ps = True
                else:
                    call["HP"] = "%d-%d,%d-%d" % ((sid, 1, sid, 2) if draw(st.booleans()) else (sid, 2, sid, 1))
                    any_hp = True
                if use_pq and draw(st.booleans()):
                    call["PQ"] = draw(st.sampled_from(["10", "23.5"]))
                    any_pq = True
        call["GT"] = gt
        for d in rec_extra:
            call[d[0]] = vm._format_value(draw, d, nalts, 2)
        calls.append(call)
    fmt = ["GT"] + (["PS"] if any_ps else []) + (["HP"] if any_hp else []) + (["PQ"] if any_pq else []) + [d[0] for d in rec_extra]
    info = [[d[0], vm._info_value(draw, d, nalts)] for d in info_defs if draw(st.booleans()) and not (d[1] in "AR" and nalts == 0)]
    if kind == "symbolic":
        info.append(["END", str(pos + 5)])
    return {"chrom": cname, "pos": pos + 1, "id": draw(st.sampled_from([None, None, "rs%d" % pos])), "ref": ref, "alts": alts,
            "qual": draw(st.sampled_from([None, "30", "12.5", "0"])),
            "filter": draw(st.sampled_from([[], ["PASS"]] + ([["q10"], ["q10", "lowcov"]] if filters else []))),
            "info": info, "format": fmt, "calls": calls}


def is_phased_call(c):
    return (c["phased"] and c["GT"] is not None and len(c["GT"]) > 1) or ("HP" in c["fmt"])


class PassthroughPart:
    name = "passthrough"
    budget = {"quick": 2000, "thorough": 50000}

    def strategy(self, tier):
        @st.composite
        def case(draw):
            return gen(draw)
        return case()

    def run(self, case, ctx):
        from whatshap.cli import CommandLineError
        d = ctx.tmp()
        o = case["opts"]
        ref = G.write_fasta(case["contigs"], os.path.join(d, "ref.fa"))
        inp = vm.write_vcf(case["model"], os.path.join(d, "in.vcf"))
        reads = G.render_specs(case, case["read_specs"])
        if case.get("read_noise") is not None:
            from props.c16_determinism import noisy_reads
            reads = noisy_reads(case, reads, case["read_noise"])
            ctx.label("reads-with-errors")
        if not reads:
            return
        bam = G.write_bam(case, reads, os.path.join(d, "reads.bam"))
        kw = {}
        if o["samples"]:
            kw["samples"] = list(o["samples"])
        if o["chromosomes"]:
            kw["chromosomes"] = list(o["chromosomes"])
        if o.get("distrust"):
            kw["distrust_genotypes"] = True
            if o.get("include_homozygous"):
                kw["include_homozygous"] = True
        out, trace = P.run_phase(d, inp, [bam], reference=ref, tag=o["tag"], only_snvs=o["only_snvs"], trace=False, **kw)
        ha, a = vm.read_vcf(inp)
        hb, b = vm.read_vcf(out)
        for kind, msg in vm.diff_headers(ha, hb):
            ctx.violation("passthrough:" + kind, msg)
        targets = set(o["samples"] or case["model"]["samples"])
        chroms = set(o["chromosomes"] or [c["name"] for c in case["contigs"]])

        def untouched(sample, rec):
            return sample not in targets or rec["chrom"] not in chroms

        for kind, msg in vm.diff_records(a, b, ignore_format=("PS", "HP"), compare_gt=None if o.get("distrust") else "multiset",
                                         gt_exact_for=untouched, fmt_exact_for=untouched):
            ctx.violation("passthrough:" + kind, msg)
        if o.get("distrust") and len(a) == len(b):
            # distrusted genotypes may be re-called, but only on records the phasing reads (one non-symbolic ALT) and only
            # into a diploid genotype over {REF, ALT}
            for i, (x, y) in enumerate(zip(a, b)):
                for s in x["samples"]:
                    gx, gy = x["samples"][s]["GT"], y["samples"][s]["GT"]
                    if vm.allele_multiset(gx) != vm.allele_multiset(gy):
                        ctx.label("genotype-re-called")
                        where = "record %d (%s:%d, kind %s) sample %s" % (i, x["chrom"], x["pos"], case["kinds"][i], s)
                        if len(x["alts"]) != 1 or x["alts"][0].startswith("<"):
                            ctx.violation("passthrough:distrust:unsupported-record-recalled", "%s: GT %r -> %r on a record with ALT %r" % (where, gx, gy, x["alts"]))
                        elif gy is None or len(gy) != 2 or any(g not in (0, 1) for g in gy):
                            ctx.violation("passthrough:distrust:bad-genotype", "%s: GT %r -> %r" % (where, gx, gy))
        edited = 0
        if len(a) == len(b):
            seen_pos = set()
            for i, (x, y) in enumerate(zip(a, b)):
                first_at_pos = (x["chrom"], x["pos"]) not in seen_pos
                # the reader's notion of "first record at a position" counts only records it does not skip
                skippable = len(x["alts"]) != 1
                for s in x["samples"]:
                    cx, cy = x["samples"][s], y["samples"][s]
                    if (cx["GT"], cx["phased"], cx["fmt"].get("PS"), cx["fmt"].get("HP")) != (cy["GT"], cy["phased"], cy["fmt"].get("PS"), cy["fmt"].get("HP")):
                        edited += 1
                    new_phase = is_phased_call(cy) and (
                        (o["tag"] == "PS" and cy["phased"] and (not cx["phased"] or cx["fmt"].get("PS") != cy["fmt"].get("PS") or cx["GT"] != cy["GT"]))
                        or (o["tag"] == "HP" and "HP" in cy["fmt"] and cx["fmt"].get("HP") != cy["fmt"].get("HP")))
                    # On the unchanged tree the writer first removes all phase information of the target samples, so
                    # every phase statement left on a target call of a processed chromosome is the writer's own.
                    if s in targets and x["chrom"] in chroms and (new_phase or is_phased_call(cy)):
                        gt = cy["GT"]
                        where = "record %d (%s:%d, kind %s) sample %s" % (i, x["chrom"], x["pos"], case["kinds"][i], s)
                        if gt is None or any(g is None for g in gt) or len(set(gt)) < 2:
                            ctx.violation("passthrough:phased-non-het", "%s is marked phased with GT %r (input call: GT %r phased=%r)" % (where, gt, cx["GT"], cx["phased"]))
                        if len(x["alts"]) != 1:
                            ctx.violation("passthrough:phased-unsupported-record", "%s newly phased although the record has ALT %r" % (where, x["alts"]))
                        elif x["alts"][0].startswith("<"):
                            ctx.violation("passthrough:phased-symbolic", "%s newly phased" % where)
                        elif o["only_snvs"] and not (len(x["ref"]) == 1 and len(x["alts"][0]) == 1):
                            ctx.violation("passthrough:phased-non-snv", "%s newly phased with --only-snvs" % where)
                        # "first record at its position": no earlier record at the position that the reader keeps
                        # (exactly one ALT; an SNV under --only-snvs)
                        for j in range(i):
                            z = a[j]
                            if (z["chrom"], z["pos"]) == (x["chrom"], x["pos"]) and len(z["alts"]) == 1 and (
                                    not o["only_snvs"] or (len(z["ref"]) == 1 and len(z["alts"][0]) == 1)):
                                # which of several records at one position receives the phase is not part of the property
                                ctx.label("later-record-of-a-position-phased")
                                break
                        if case["kinds"][i] in ("dup-after", "real-after-dup"):
                            ctx.label("phased-at-duplicate-position-after-skipped-record")
                seen_pos.add((x["chrom"], x["pos"]))
        skipped_kinds = {"multi", "symbolic", "noalt", "dup-before", "dup-after"}
        has_skip = any(k in skipped_kinds for k in case["kinds"]) or len(targets) < len(case["model"]["samples"]) or len(chroms) < len(case["contigs"])
        ctx.nontrivial(edited > 0 and has_skip)
        ctx.label("tag-" + o["tag"])
        if o.get("distrust"):
            ctx.label("distrust-genotypes")
            if any(d[0] == "PL" for d in case["model"]["format_defs"]):
                ctx.label("distrust-with-PL")
        if edited:
            ctx.label("edited")
        for k in sorted(set(case["kinds"])):
            ctx.label("kind-" + k)


PARTS = [PassthroughPart()]
