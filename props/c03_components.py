"""C03 - phase sets are exactly the read-connected components, named by the leftmost variant."""
import os
from hypothesis import strategies as st

from vlib import genome as G, pipeline as P

ID = "C03"
RULE = ("Pipeline cases aimed at component structure: 1-2 contigs, well separated variants, short reads with paired ends "
        "and N skips over long inserts (interleaved / nested components), small --internal-downsampling caps so that read "
        "selection cuts components, sparse contigs; single samples (each its own family) and trios with --ped (variants "
        "homozygous in a member; with and without --no-genetic-haplotyping); --tag PS and HP. Oracle: the reads handed to "
        "the solver and the accessible positions are taken from the trace hook (inputs of the component computation, never "
        "its result) and cross-checked against --output-read-list; connectivity is recomputed by naive relabelling (plus, "
        "in pedigree mode, merging all accessible positions that are homozygous in a family member according to the input "
        "genotypes); every phased call must carry the id (leftmost position of its component) + 1. Non-trivial = >= 2 "
        "components with >= 2 phased variants each, or an interleaved pair of components, or a pedigree merge. "
        "Distinct = distinct generated case.")
ASSUMPTIONS = [
    "trusted genotypes only (with --distrust-genotypes the code legitimately re-derives heterozygosity after phasing)",
    "the trace hook reports the reads given to the solver faithfully; it is cross-checked against --output-read-list",
]


def components_from_trace(t, merge_positions=None):
    lists = [[v[0] for v in r["variants"]] for r in t["reads"]]
    lab = P.naive_components(lists + [[p] for p in t["accessible_positions"]], extra_merge=merge_positions)
    return lab


def check_sets(case, out, trace, read_list, ctx, family_of, genetic, tag):
    dec = P.decode_phasing(out)
    nt = False
    listed = {}
    if read_list and os.path.exists(read_list):
        with open(read_list) as f:
            f.readline()
            for line in f:
                p = line.rstrip("\n").split("\t")
                listed.setdefault(p[2], set()).add(p[0])
    traced_names = {}
    for t in trace:
        chrom = t["chromosome"]
        fam = t["family"]
        for r in t["reads"]:
            traced_names.setdefault(r["sample"], set()).add(r["name"])
        merge = None
        if len(fam) > 1 and genetic:
            idx = {v["pos"]: vi for vi, v in enumerate(case["variants"][chrom])}
            merge = []
            for p in t["accessible_positions"]:
                vi = idx[p]
                if any(len({h[vi] for h in case["haps"][s][chrom]}) == 1 for s in fam):
                    merge.append(p)
            if len(merge) >= 2:
                ctx.label("pedigree-merge")
                nt = True
        lab = components_from_trace(t, merge)
        comps = {}
        for p, c in lab.items():
            comps.setdefault(c, []).append(p)
        # interleaving
        ivs = sorted((min(v), max(v)) for v in comps.values() if len(v) >= 2)
        if any(ivs[i + 1][0] < ivs[i][1] for i in range(len(ivs) - 1)):
            ctx.label("interleaved-components")
            nt = True
        for s in fam:
            calls = {pos: x for (c, pos), x in dec.get(s, {}).items() if c == chrom}
            per_comp = {}
            for pos, (al, sid, enc) in calls.items():
                if pos not in lab:
                    ctx.violation("components:phased-but-not-accessible", "sample %s %s:%d is phased but no read handed to the solver covers it" % (s, chrom, pos + 1))
                    continue
                want = lab[pos] + 1
                per_comp.setdefault(lab[pos], []).append(pos)
                if sid != want:
                    ctx.violation("components:phase-set-id", "sample %s %s:%d has phase set %r, its read-connected component starts at %d (id %d); component %r" % (
                        s, chrom, pos + 1, sid, lab[pos] + 1, want, sorted(x + 1 for x in comps[lab[pos]])))
            if sum(1 for v in per_comp.values() if len(v) >= 2) >= 2:
                nt = True
                ctx.label(">=2-components")
    if read_list:
        if listed != {k: v for k, v in traced_names.items() if v}:
            ctx.violation("components:read-list-vs-trace", "reads in --output-read-list %r differ from the reads in the trace %r" % (
                {k: len(v) for k, v in listed.items()}, {k: len(v) for k, v in traced_names.items()}))
    return nt


class SinglePart:
    name = "single"
    budget = {"quick": 1600, "thorough": 32000}

    def strategy(self, tier):
        @st.composite
        def case(draw):
            c = P.gen_case(draw, nsamples=(1, 2), depth=(1, 8), read_len=(40, 160), paired_share=40, skip_share=25,
                           clip_share=5, eqx_share=0, mingap=30, maxgap=80, sparse_contig_share=15)
            c["opts"] = {"tag": draw(st.sampled_from(["PS", "HP"])), "max_coverage": draw(st.sampled_from([1, 2, 2, 3, 4, 15]))}
            return c
        return case()

    def run(self, case, ctx):
        d = ctx.tmp()
        paths, reads = P.materialise(case, d)
        if "bam" not in paths:
            return
        o = case["opts"]
        rl = os.path.join(d, "reads.tsv")
        out, trace = P.run_phase(d, paths["vcf"], [paths["bam"]], reference=paths["ref"], tag=o["tag"],
                                 max_coverage=o["max_coverage"], read_list_filename=rl)
        nt = check_sets(case, out, trace, rl, ctx, None, True, o["tag"])
        # independent of the trace: when the cap cannot bind, every template (single read, or both mates of a pair) with
        # at least two fully covered heterozygous variants is used, so the phase sets follow from the generated geometry
        dec = P.decode_phasing(out)
        for s in case["samples"]:
            for contig in case["contigs"]:
                cname = contig["name"]
                V = case["variants"][cname]
                hp = case["haps"][s][cname]
                het = [vi for vi in range(len(V)) if hp[0][vi] != hp[1][vi]]
                templates = {}
                partial = False
                for r in reads:
                    if r["sample"] != s or r["chrom"] != cname:
                        continue
                    for vi in het:
                        cl = G.coverage_class(r, V[vi])
                        if cl == "full":
                            templates.setdefault(r["name"], set()).add(V[vi]["pos"])
                        elif cl == "partial":
                            partial = True
                lists = [sorted(t) for t in templates.values() if len(t) >= 2]
                if partial or not lists:
                    continue
                span = {}
                for pl in lists:
                    for vi in het:
                        if pl[0] <= V[vi]["pos"] <= pl[-1]:
                            span[vi] = span.get(vi, 0) + 1
                if max(span.values()) > o["max_coverage"]:
                    continue
                ctx.label("geometry-judged")
                comp = P.naive_components(lists)
                got = {pos: v[1] for (c, pos), v in dec.get(s, {}).items() if c == cname}
                # the property speaks about variants that ARE phased: which set they are in and how it is named
                for pos, lead in comp.items():
                    if pos not in got:
                        ctx.label("geometry:covered-variant-left-unphased")
                    elif got[pos] != lead + 1:
                        ctx.violation("components:geometry:phase-set-id", "sample %s %s:%d carries phase set %r, the reads written to the BAM connect it to the component starting at %d" % (
                            s, cname, pos + 1, got[pos], lead + 1))
                for pos in got:
                    if pos not in comp and got[pos] != pos + 1:
                        ctx.violation("components:geometry:phase-set-id", "sample %s %s:%d is linked to no other variant by any read but carries phase set %r" % (s, cname, pos + 1, got[pos]))
        ctx.nontrivial(nt)
        ctx.label("tag-" + o["tag"])
        ctx.label("cap-%d" % o["max_coverage"])


def gen_trio_case(draw, **kw):
    c = P.gen_case(draw, sample_names=["father", "mother", "child"], **kw)
    for contig in c["contigs"]:
        name = contig["name"]
        n = len(c["variants"][name])
        f = c["haps"]["father"][name]
        m = c["haps"]["mother"][name]
        # more homozygous sites in the parents
        for vi in range(n):
            if draw(st.integers(0, 3)) == 0:
                who = draw(st.sampled_from([f, m]))
                who[1][vi] = who[0][vi]
        fh = draw(st.integers(0, 1))
        mh = draw(st.integers(0, 1))
        rec_f = draw(st.integers(0, n)) if draw(st.integers(0, 3)) == 0 else None
        rec_m = draw(st.integers(0, n)) if draw(st.integers(0, 3)) == 0 else None
        ch = [[0] * n, [0] * n]
        for vi in range(n):
            a = fh ^ (1 if rec_f is not None and vi >= rec_f else 0)
            b = mh ^ (1 if rec_m is not None and vi >= rec_m else 0)
            ch[0][vi] = f[a][vi]
            ch[1][vi] = m[b][vi]
        c["haps"]["child"][name] = ch
        c.setdefault("transmission", {})[name] = {"fh": fh, "mh": mh, "rec_f": rec_f, "rec_m": rec_m}
    return c


class TrioPart:
    name = "trio"
    budget = {"quick": 800, "thorough": 16000}

    def strategy(self, tier):
        @st.composite
        def case(draw):
            c = gen_trio_case(draw, depth=(0, 5), read_len=(40, 160), paired_share=30, skip_share=15, clip_share=0, eqx_share=0,
                              ncontigs=(1, 1), length=(400, 900))
            c["opts"] = {"tag": draw(st.sampled_from(["PS", "HP"])), "max_coverage": draw(st.sampled_from([3, 4, 6, 15])),
                         "genetic": draw(st.sampled_from([True, True, False]))}
            return c
        return case()

    def run(self, case, ctx):
        d = ctx.tmp()
        # reads must be re-rendered against the final child haplotypes: specs only name sample+hap, so this is automatic
        paths, reads = P.materialise(case, d)
        if "bam" not in paths:
            return
        o = case["opts"]
        ped = G.write_ped([["father", "mother", "child"]], os.path.join(d, "trio.ped"))
        rl = os.path.join(d, "reads.tsv")
        out, trace = P.run_phase(d, paths["vcf"], [paths["bam"]], reference=paths["ref"], tag=o["tag"], ped=ped,
                                 max_coverage=o["max_coverage"], genetic_haplotyping=o["genetic"], read_list_filename=rl)
        nt = check_sets(case, out, trace, rl, ctx, None, o["genetic"], o["tag"])
        ctx.nontrivial(nt)
        ctx.label("genetic-haplotyping" if o["genetic"] else "no-genetic-haplotyping")


PARTS = [SinglePart(), TrioPart()]
