"""Reference oracles. They share *definitions* with the code under test (objective, emission
constants) but none of its machinery (no projection, Gray codes, scaling, checkpointing, heaps).

Instance format used by the PedMEC / HMM oracles (plain data):
  n_ind   number of individuals, indices 0..n_ind-1 in the order they are added to the Pedigree
  trios   list of [father, mother, child] (indices)
  ncols   number of columns
  reads   list of {"ind": i, "vars": [[col, allele, weight], ...]}  (cols strictly increasing)
  gt      gt[ind][col] = [a, b]        (trusted mode)
  gl      gl[ind][col] = [x0, x1, x2]  (phred costs in distrust mode / probabilities for the HMM)
  distrust bool
  recomb  recomb[col] = cost of one recombination between col-1 and col (recomb[0] unused)
"""
import itertools

INF = float("inf")


def partitions_map(n_ind, trios, t, flip=False):
    """haplotype -> founder partition for transmission value t. Founders get (2k, 2k+1) in index
    order. Bit 2k of t concerns the father of trio k, bit 2k+1 the mother; a set bit selects the
    parent's haplotype 0 (the code's convention); flip=True is the opposite global convention."""
    child_of = {c: i for i, (f, m, c) in enumerate(trios)}
    hp = {}
    p = 0
    for i in range(n_ind):
        if i not in child_of:
            hp[i] = (p, p + 1)
            p += 2

    def rec(i):
        if i in hp:
            return
        k = child_of[i]
        f, m, _ = trios[k]
        rec(f)
        rec(m)
        fb = (t >> (2 * k)) & 1
        mb = (t >> (2 * k + 1)) & 1
        if flip:
            fb, mb = 1 - fb, 1 - mb
        hp[i] = (hp[f][0 if fb else 1], hp[m][0 if mb else 1])

    for i in range(n_ind):
        rec(i)
    return hp, p


class PedMEC:
    """Brute-force (Ped)MEC: enumerate all read bipartitions; per bipartition and column take the
    minimum over admissible allele assignments to founder haplotypes; chain columns over the
    transmission values with cost recomb[c] * popcount(t ^ t')."""

    def __init__(self, inst, flip=False):
        self.inst = inst
        self.n_ind = inst["n_ind"]
        self.trios = [tuple(t) for t in inst["trios"]]
        self.T = 4 ** len(self.trios)
        self.maps = [partitions_map(self.n_ind, self.trios, t, flip) for t in range(self.T)]
        self.P = self.maps[0][1]
        self.ncols = inst["ncols"]
        self.active = [[] for _ in range(self.ncols)]  # per column: (read index, ind, allele, weight)
        for r, rd in enumerate(inst["reads"]):
            for col, al, w in rd["vars"]:
                self.active[col].append((r, rd["ind"], al, w))
        self._cache = {}

    def column(self, c, t, bits):
        """(best cost, list of optimal assignments) for column c, transmission t, where bits[j]
        is the side (0/1) of the j-th active read of the column."""
        key = (c, t, bits)
        hit = self._cache.get(key)
        if hit is not None:
            return hit
        hp, P = self.maps[t]
        inst = self.inst
        w = [[0, 0] for _ in range(P)]  # w[p][x] = cost if partition p carries allele x
        for (r, ind, al, q), side in zip(self.active[c], bits):
            w[hp[ind][side]][1 - al] += q
        best = INF
        bests = []
        for a in range(1 << P):
            cost = 0
            ok = True
            for i in range(self.n_ind):
                x0 = (a >> hp[i][0]) & 1
                x1 = (a >> hp[i][1]) & 1
                if inst["distrust"]:
                    cost += inst["gl"][i][c][x0 + x1]
                else:
                    g = inst["gt"][i][c]
                    if x0 + x1 != g[0] + g[1]:
                        ok = False
                        break
            if not ok:
                continue
            for p in range(P):
                cost += w[p][(a >> p) & 1]
            if cost < best:
                best = cost
                bests = [a]
            elif cost == best:
                bests.append(a)
        res = (best, bests)
        self._cache[key] = res
        return res

    def _bits(self, c, B):
        return tuple(B[r] for r, _, _, _ in self.active[c])

    def objective(self, B, tv):
        """objective value of a concrete solution (bipartition B, transmission vector tv)"""
        tot = 0
        for c in range(self.ncols):
            cc = self.column(c, tv[c], self._bits(c, B))[0]
            if cc == INF:
                return INF
            tot += cc
            if c > 0:
                tot += self.inst["recomb"][c] * bin(tv[c] ^ tv[c - 1]).count("1")
        return tot

    def minimum(self):
        n = len(self.inst["reads"])
        T = self.T
        nbits = 2 * len(self.trios)
        best = INF
        argmin = None
        for B in itertools.product((0, 1), repeat=n):
            cur = None
            for c in range(self.ncols):
                bits = self._bits(c, B)
                cc = [self.column(c, t, bits)[0] for t in range(T)]
                if cur is None:
                    cur = cc
                else:
                    r = self.inst["recomb"][c]
                    # min-plus convolution with r * popcount(t ^ u), one bit at a time
                    for b in range(nbits):
                        m = 1 << b
                        cur = [min(cur[t], cur[t ^ m] + r) for t in range(T)]
                    cur = [cur[t] + cc[t] for t in range(T)]
            v = min(cur) if cur is not None else 0
            if v < best:
                best = v
                argmin = B
        return best, argmin


def levenshtein(s, t):
    m, n = len(s), len(t)
    prev = list(range(n + 1))
    for i in range(1, m + 1):
        cur = [i] + [0] * n
        si = s[i - 1]
        for j in range(1, n + 1):
            cur[j] = min(prev[j] + 1, cur[j - 1] + 1, prev[j - 1] + (si != t[j - 1]))
        prev = cur
    return prev[n]


# --------------------------------------------------------------------------- genotyping HMM

def phred_error(q):
    return 0.9999 if q == 0 else 10 ** (-q / 10.0)


class GenotypeHMM:
    """Plain forward-backward summation of the genotyping HMM (states: read bipartition,
    transmission value, allele assignment). For every global bipartition B the per-column weights
    M[c][t] = sum_a prior_c(t, a) * emit_c(B, t, a) and their split by (individual, genotype) are
    chained by the row-normalised Bernoulli transition r^k (1-r)^(2T-k), r = 10^(-recomb/10); the
    start distribution is uniform. posterior = ratio of sums."""

    def __init__(self, inst):
        self.inst = inst
        self.n_ind = inst["n_ind"]
        self.trios = [tuple(t) for t in inst["trios"]]
        self.nt = len(self.trios)
        self.T = 4 ** self.nt
        self.maps = [partitions_map(self.n_ind, self.trios, t) for t in range(self.T)]
        self.P = self.maps[0][1]
        self.ncols = inst["ncols"]
        self.active = [[] for _ in range(self.ncols)]
        for r, rd in enumerate(inst["reads"]):
            for col, al, w in rd["vars"]:
                self.active[col].append((r, rd["ind"], al, w))
        self._prior = {}
        self._col = {}

    def prior(self, c, t):
        key = (c, t)
        if key in self._prior:
            return self._prior[key]
        hp, P = self.maps[t]
        w = {}
        gv = {}
        cnt = {}
        for a in range(1 << P):
            g = tuple(((a >> hp[i][0]) & 1) + ((a >> hp[i][1]) & 1) for i in range(self.n_ind))
            p = 1.0
            for i in range(self.n_ind):
                p *= self.inst["gl"][i][c][g[i]]
            w[a] = p
            gv[a] = g
            cnt[g] = cnt.get(g, 0) + 1
        for a in w:
            w[a] /= cnt[gv[a]]
        s = sum(w.values())
        res = ({a: w[a] / s for a in w} if s > 0 else dict(w), gv)
        self._prior[key] = res
        return res

    def column(self, c, t, bits):
        key = (c, t, bits)
        hit = self._col.get(key)
        if hit is not None:
            return hit
        hp, P = self.maps[t]
        pr, gv = self.prior(c, t)
        M = 0.0
        G = [[0.0, 0.0, 0.0] for _ in range(self.n_ind)]
        for a, pa in pr.items():
            e = pa
            for (r, ind, al, q), side in zip(self.active[c], bits):
                err = phred_error(q)
                e *= (1 - err) if ((a >> hp[ind][side]) & 1) == al else err
            M += e
            g = gv[a]
            for i in range(self.n_ind):
                G[i][g[i]] += e
        res = (M, G)
        self._col[key] = res
        return res

    def trans(self, c):
        r = 10 ** (-self.inst["recomb"][c] / 10.0)
        T = self.T
        rows = []
        for u in range(T):
            row = [r ** bin(u ^ t).count("1") * (1 - r) ** (2 * self.nt - bin(u ^ t).count("1")) for t in range(T)]
            s = sum(row)
            rows.append([x / s for x in row])
        return rows

    def posterior(self):
        n = len(self.inst["reads"])
        C, T, N = self.ncols, self.T, self.n_ind
        post = [[[0.0] * 3 for _ in range(C)] for _ in range(N)]
        Z = 0.0
        tr = [None] + [self.trans(c) for c in range(1, C)]
        for B in itertools.product((0, 1), repeat=n):
            cols = []
            for c in range(C):
                bits = tuple(B[r] for r, _, _, _ in self.active[c])
                cols.append([self.column(c, t, bits) for t in range(T)])
            fw = [[0.0] * T for _ in range(C)]
            bw = [[0.0] * T for _ in range(C)]
            for t in range(T):
                fw[0][t] = cols[0][t][0]
            for c in range(1, C):
                for t in range(T):
                    fw[c][t] = sum(fw[c - 1][u] * tr[c][u][t] for u in range(T)) * cols[c][t][0]
            for t in range(T):
                bw[C - 1][t] = 1.0
            for c in range(C - 2, -1, -1):
                for u in range(T):
                    bw[c][u] = sum(tr[c + 1][u][t] * cols[c + 1][t][0] * bw[c + 1][t] for t in range(T))
            Z += sum(fw[C - 1])
            for c in range(C):
                for t in range(T):
                    M, G = cols[c][t]
                    if M == 0:
                        continue
                    pre = fw[c][t] / M * bw[c][t]
                    if pre == 0:
                        continue
                    for i in range(N):
                        for g in range(3):
                            post[i][c][g] += pre * G[i][g]
        if Z == 0:
            return None
        return [[[x / Z for x in post[i][c]] for c in range(C)] for i in range(N)]


# --------------------------------------------------------------------------- phasing comparison

def _perm_chain_min(ncols, perms_at, trans_cost, col_cost):
    """min over sequences (pi_0..pi_{n-1}), pi_k in perms_at(k), of sum col_cost(k, pi_k) + sum trans_cost(pi_k, pi_{k+1})"""
    prev = None
    for k in range(ncols):
        cur = {}
        for pi in perms_at(k):
            c = col_cost(k, pi)
            if prev is None:
                cur[pi] = c
            else:
                cur[pi] = c + min(v + trans_cost(q, pi) for q, v in prev.items())
        if not cur:
            return None
        prev = cur
    return min(prev.values()) if prev else 0


def poly_switch_errors(ph0, ph1):
    """Minimum number of haplotype switches (summed over haplotypes, divided by ploidy) needed to
    turn phasing ph0 into ph1, restricted to positions where both have the same genotype.
    ph*: list of ploidy sequences of alleles."""
    p = len(ph0)
    n = len(ph0[0])
    cols = [k for k in range(n) if sorted(h[k] for h in ph0) == sorted(h[k] for h in ph1)]
    allperms = list(itertools.permutations(range(p)))

    def perms_at(i):
        k = cols[i]
        return [pi for pi in allperms if all(ph0[pi[j]][k] == ph1[j][k] for j in range(p))]

    best = _perm_chain_min(len(cols), perms_at, lambda a, b: sum(1 for x, y in zip(a, b) if x != y), lambda i, pi: 0)
    return (best or 0) / p, len(cols)


def poly_switch_flip_total(ph0, ph1, switch_cost=1, flip_cost=1):
    p = len(ph0)
    n = len(ph0[0])
    allperms = list(itertools.permutations(range(p)))
    best = _perm_chain_min(n, lambda k: allperms,
                           lambda a, b: switch_cost * sum(1 for x, y in zip(a, b) if x != y),
                           lambda k, pi: flip_cost * sum(1 for j in range(p) if ph0[pi[j]][k] != ph1[j][k]))
    return (best or 0) / p


def poly_hamming(ph0, ph1):
    p = len(ph0)
    best = None
    for pi in itertools.permutations(range(p)):
        tot = sum(sum(1 for a, b in zip(ph1[j], ph0[pi[j]]) if a != b) for j in range(p))
        best = tot if best is None else min(best, tot)
    return best / p


def diploid_orientation_errors(ph0, ph1):
    """Diploid block with identical genotypes at every position: orientation o_k (0 same / 1 swapped;
    None when the call is homozygous... cannot happen for het sites). Returns dict with switches,
    (s, f) decomposition by run lengths, hamming and switch positions."""
    n = len(ph0[0])
    o = []
    for k in range(n):
        a = (ph0[0][k], ph0[1][k])
        b = (ph1[0][k], ph1[1][k])
        if a == b:
            o.append(0)
        elif a == (b[1], b[0]):
            o.append(1)
        else:
            return None
    changes = [int(o[k] != o[k + 1]) for k in range(n - 1)]
    s = f = 0
    run = 0
    for c in changes + [0]:
        if c:
            run += 1
        else:
            f += run // 2
            s += run % 2
            run = 0
    return {"switches": sum(changes), "s": s, "f": f, "hamming": min(sum(o), n - sum(o)),
            "switch_positions": [k for k, c in enumerate(changes) if c], "orientation": o}
