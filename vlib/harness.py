"""Campaign runner shared by all property modules.

A property module (props/cNN_*.py) exposes
    ID            "C18"
    RULE          text for evidence.coverage.rule (generation + non-triviality rule)
    ASSUMPTIONS   list of strings
    PARTS         list of Part objects (see below)

A Part is one generated-input campaign with one oracle:
    name                      short id, used in replay files ("part")
    budget = {"quick": n, "thorough": m}     number of generated cases (all shards together)
    strategy(tier)            -> hypothesis strategy producing a *plain-data* case (json-able)
    run(case, ctx)            executes the code under test and the oracle; reports through ctx
    enumerate(tier)           optional: iterable of cases of a finite scope (exhaustive part);
                              if present, `strategy` is not used and ctx.exhaustive is recorded
    guard = True/False        write the case to disk before running it (C/C++ abort forensics)

Contract of run(): never raise on an oracle mismatch, call ctx.violation(signature, detail)
and return; an exception escaping run() whose traceback passes through the whatshap package
is bucketed as crash:<type>:<function>; any other exception is a harness error (exit 2).
"""
import collections, hashlib, importlib, json, multiprocessing, os, shutil, signal, sys, tempfile, time, traceback

VERIF = os.path.dirname(os.path.dirname(os.path.abspath(__file__)))
NSHARDS = int(os.environ.get("VERIF_SHARDS", "16"))


def scratch_root():
    for d in (os.environ.get("VERIF_SCRATCH"), "/dev/shm", os.environ.get("TMPDIR"), "/tmp"):
        if d and os.path.isdir(d) and os.access(d, os.W_OK):
            return d
    return tempfile.gettempdir()


def jhash(case):
    return hashlib.sha1(json.dumps(case, sort_keys=True, separators=(",", ":")).encode()).hexdigest()[:16]


def abbreviate(x, maxstr=60, maxlist=12):
    if isinstance(x, str):
        return x if len(x) <= maxstr else x[:maxstr] + "...(%d chars)" % len(x)
    if isinstance(x, dict):
        return {k: abbreviate(v, maxstr, maxlist) for k, v in x.items()}
    if isinstance(x, (list, tuple)):
        out = [abbreviate(v, maxstr, maxlist) for v in x[:maxlist]]
        if len(x) > maxlist:
            out.append("...(%d items)" % len(x))
        return out
    return x


class HarnessError(Exception):
    pass


class OutputError(Exception):
    """raised by helpers when a file *written by the code under test* cannot be parsed: a violation, not a harness error"""

    def __init__(self, signature, message):
        super().__init__(message)
        self.signature = signature


class Ctx:
    """Per-shard accounting; per-case state reset by begin()."""

    def __init__(self, tier, scratch=None):
        self.tier = tier
        self.evaluations = 0
        self.nontrivial_hashes = set()
        self.labels = collections.Counter()
        self.excluded = collections.Counter()
        self.violations = {}  # sig -> dict(case, detail, count, part)
        self.samples = []
        self.units = collections.Counter()  # e.g. (read,variant) pairs
        self._scratch = scratch
        self._tmp = None
        self._nt = False
        self._case_sigs = []
        self.raise_on = None  # signature to raise on (shrinking pass)

    # ---- per-case API used by property modules
    def label(self, name, n=1):
        self.labels[name] += n

    def unit(self, name, n=1):
        self.units[name] += n

    def nontrivial(self, flag=True):
        if flag:
            self._nt = True

    def exclude(self, name):
        self.excluded[name] += 1

    def violation(self, sig, detail=""):
        self._case_sigs.append((sig, str(detail)[:2000]))

    def tmp(self):
        if self._tmp is None:
            self._tmp = tempfile.mkdtemp(prefix="wv-%d-" % os.getpid(), dir=self._scratch or scratch_root())
        return self._tmp

    # ---- harness side
    def begin(self):
        self._nt = False
        self._case_sigs = []

    def end(self, part, case):
        self.evaluations += 1
        if self._tmp is not None:
            shutil.rmtree(self._tmp, ignore_errors=True)
            self._tmp = None
        if self._nt:
            self.nontrivial_hashes.add(jhash(case))
            if len(self.samples) < 2:
                self.samples.append({"part": part.name, "case": abbreviate(case)})
        for sig, detail in self._case_sigs:
            v = self.violations.get(sig)
            if v is None:
                self.violations[sig] = {"case": case, "detail": detail, "count": 1, "part": part.name}
            else:
                v["count"] += 1
                if len(json.dumps(case)) < len(json.dumps(v["case"])):
                    v["case"], v["detail"] = case, detail
        return [s for s, _ in self._case_sigs]


def _whatshap_frame(tb):
    """innermost traceback frame inside the whatshap package, or None"""
    found = None
    for fs in traceback.extract_tb(tb):
        fn = fs.filename.replace("\\", "/")
        if fn.startswith(VERIF + "/"):
            continue
        if "/whatshap/" in fn or fn.startswith("whatshap/"):
            found = fs
    return found


def run_case(part, case, ctx, guard_path=None):
    """Run one case; returns list of signatures it produced."""
    ctx.begin()
    if guard_path:
        with open(guard_path, "w") as f:
            json.dump({"part": part.name, "case": case}, f)
    try:
        part.run(case, ctx)
    except HarnessError:
        raise
    except OutputError as e:
        ctx.violation(e.signature, str(e))
    except Exception as e:  # noqa
        fs = _whatshap_frame(e.__traceback__)
        if fs is None and not getattr(part, "all_exceptions_are_crashes", False):
            try:
                os.makedirs(os.path.join(VERIF, "out"), exist_ok=True)
                with open(os.path.join(VERIF, "out", "harness_error_case.json"), "w") as f:
                    json.dump({"part": part.name, "case": case}, f)
            except Exception:
                pass
            raise HarnessError("exception outside whatshap while running %s/%s:\n%s\ncase=%s" % (
                part.name, type(e).__name__, traceback.format_exc(), json.dumps(case)[:3000]))
        where = "%s:%s" % (os.path.basename(fs.filename), fs.name) if fs else "?"
        ctx.violation("crash:%s:%s" % (type(e).__name__, where), traceback.format_exc()[-1500:])
    return ctx.end(part, case)


class _Found(Exception):
    pass


def _hyp_settings(n, shrink):
    from hypothesis import settings, HealthCheck, Phase
    return settings(max_examples=max(1, n), database=None, deadline=None, derandomize=False,
                    report_multiple_bugs=False, suppress_health_check=list(HealthCheck),
                    phases=[Phase.generate, Phase.shrink] if shrink else [Phase.generate],
                    print_blob=False)


def run_shard(part, tier, seed, n, ctx, guard_path=None, raise_sig=None, best_path=None):
    """One Hypothesis run of `n` examples with seed `seed`. With raise_sig, the test fails when
    that signature appears (used for shrinking); the smallest failing case is kept in best_path."""
    import hypothesis
    from hypothesis import given
    if hasattr(part, "machine"):
        return run_machine_shard(part, tier, seed, n, ctx, guard_path, raise_sig, best_path)
    strat = part.strategy(tier)
    best = {"size": None}
    # Hypothesis always starts with the all-minimal example: identical in every shard, so only shard 0 runs it
    skip_first = {"todo": seed % 1000 != 0}
    if skip_first["todo"]:
        n += 1

    def body(case):
        if skip_first["todo"]:
            skip_first["todo"] = False
            return
        sigs = run_case(part, case, ctx, guard_path)
        if raise_sig is not None and raise_sig in sigs:
            size = len(json.dumps(case))
            if best["size"] is None or size <= best["size"]:
                best["size"] = size
                if best_path:
                    tmpf = best_path + ".tmp"
                    with open(tmpf, "w") as f:
                        json.dump({"part": part.name, "signature": raise_sig, "case": case,
                                   "detail": dict(ctx._case_sigs).get(raise_sig, "")}, f)
                    os.replace(tmpf, best_path)
            raise _Found(raise_sig)

    test = hypothesis.seed(seed)(_hyp_settings(n, raise_sig is not None)(given(strat)(body)))
    try:
        test()
    except _Found:
        pass
    except BaseException as e:
        # hypothesis wraps/re-raises; anything that is not ours is a harness problem
        if raise_sig is not None and "_Found" in repr(e):
            return
        if isinstance(e, HarnessError):
            raise
        if type(e).__name__ in ("Flaky", "FlakyFailure", "FlakyStrategyDefinition") and raise_sig is not None:
            return
        raise


def run_machine_shard(part, tier, seed, n, ctx, guard_path, raise_sig, best_path):
    """Stateful (rule-based) parts: part.machine(tier) returns a RuleBasedStateMachine subclass
    derived from HistoryMachine. Every rule goes through self.step(op) which appends the op to
    self.history (plain data) and applies it through part.apply(state, op, ctx); the replayable
    case is {"ops": history} and part.run(case, ctx) re-interprets it without Hypothesis."""
    import hypothesis
    from hypothesis.stateful import run_state_machine_as_test
    base = part.machine(tier)
    best = {"size": None}

    class M(base):
        def __init__(self):
            ctx.begin()
            super().__init__()
            self.history = []
            self.state = part.new_state()
            self._done = False

        def step(self, op):
            self.history.append(op)
            if guard_path:
                with open(guard_path, "w") as f:
                    json.dump({"part": part.name, "case": {"ops": self.history}}, f)
            try:
                part.apply(self.state, op, ctx)
            except HarnessError:
                raise
            except Exception as e:  # crash inside the code under test
                fs = _whatshap_frame(e.__traceback__)
                if fs is None:
                    raise HarnessError("exception outside whatshap in %s: %s" % (part.name, traceback.format_exc()))
                ctx.violation("crash:%s:%s:%s" % (type(e).__name__, os.path.basename(fs.filename), fs.name), traceback.format_exc()[-1500:])
            self._maybe_raise()

        def _maybe_raise(self):
            if raise_sig is not None and raise_sig in [s for s, _ in ctx._case_sigs]:
                case = {"ops": list(self.history)}
                size = len(json.dumps(case))
                if best["size"] is None or size <= best["size"]:
                    best["size"] = size
                    if best_path:
                        with open(best_path + ".tmp", "w") as f:
                            json.dump({"part": part.name, "signature": raise_sig, "case": case,
                                       "detail": dict(ctx._case_sigs).get(raise_sig, "")}, f)
                        os.replace(best_path + ".tmp", best_path)
                raise _Found(raise_sig)

        def teardown(self):
            if self._done:
                return
            self._done = True
            try:
                part.finish(self.state, ctx)
            except HarnessError:
                raise
            except Exception as e:
                fs = _whatshap_frame(e.__traceback__)
                if fs is None:
                    raise HarnessError("exception outside whatshap in %s: %s" % (part.name, traceback.format_exc()))
                ctx.violation("crash:%s:%s:%s" % (type(e).__name__, os.path.basename(fs.filename), fs.name), traceback.format_exc()[-1500:])
            finally:
                sigs = ctx.end(part, {"ops": list(self.history)})
            if raise_sig is not None and raise_sig in sigs:
                raise _Found(raise_sig)

    M.__name__ = base.__name__
    M.__qualname__ = base.__qualname__
    from hypothesis import settings, HealthCheck, Phase
    st = settings(max_examples=max(1, n), database=None, deadline=None, derandomize=False,
                  report_multiple_bugs=False, suppress_health_check=list(HealthCheck),
                  stateful_step_count=getattr(part, "steps", 50),
                  phases=[Phase.generate, Phase.shrink] if raise_sig is not None else [Phase.generate],
                  print_blob=False)
    try:
        run_state_machine_as_test(hypothesis.seed(seed)(M), settings=st)
    except _Found:
        pass
    except BaseException as e:
        if isinstance(e, HarnessError):
            raise
        if raise_sig is not None:
            return
        raise


def _quiet_htslib():
    try:
        import pysam, logging
        pysam.set_verbosity(0)
        logging.getLogger("whatshap").setLevel(logging.CRITICAL)
        logging.getLogger().setLevel(logging.CRITICAL)
    except Exception:
        pass


def _worker(modname, part_idx, tier, seed, shard, nshards, n, outpath, guard_path, force_guard=False):
    try:
        os.environ.setdefault("PYTHONHASHSEED", "0")
        _quiet_htslib()
        mod = importlib.import_module(modname)
        part = mod.PARTS[part_idx]
        ctx = Ctx(tier)
        t0 = time.time()
        exhaustive = False
        if hasattr(part, "enumerate"):
            exhaustive = True
            limit = part.budget.get(tier)
            for i, case in enumerate(part.enumerate(tier)):
                if i % nshards != shard:
                    continue
                run_case(part, case, ctx, guard_path if (force_guard or getattr(part, "guard", False)) else None)
        else:
            run_shard(part, tier, seed * 1000 + shard, n, ctx,
                      guard_path if (force_guard or getattr(part, "guard", False)) else None)
        res = {
            "ok": True, "evaluations": ctx.evaluations, "nt": sorted(ctx.nontrivial_hashes),
            "labels": dict(ctx.labels), "excluded": dict(ctx.excluded), "units": dict(ctx.units),
            "violations": ctx.violations, "samples": ctx.samples, "exhaustive": exhaustive,
            "wall": time.time() - t0,
        }
    except HarnessError as e:
        res = {"ok": False, "error": str(e)}
    except BaseException:
        res = {"ok": False, "error": traceback.format_exc()}
    with open(outpath + ".tmp", "w") as f:
        json.dump(res, f)
    os.replace(outpath + ".tmp", outpath)


def run_part(mod, part_idx, tier, seed, workdir):
    """Run all shards of one part in separate processes; merge results."""
    part = mod.PARTS[part_idx]
    total = part.budget[tier]
    if total <= 0:
        return None
    nshards = min(NSHARDS, max(1, total // max(1, getattr(part, "min_per_shard", 20)))) if not hasattr(part, "enumerate") else NSHARDS
    per = (total + nshards - 1) // nshards
    ctxm = multiprocessing.get_context("fork")
    procs = []
    for s in range(nshards):
        out = os.path.join(workdir, "%s.%d.json" % (part.name, s))
        guard = os.path.join(workdir, "%s.%d.current" % (part.name, s))
        p = ctxm.Process(target=_worker, args=(mod.__name__, part_idx, tier, seed, s, nshards, per, out, guard))
        p.start()
        procs.append((p, out, guard, s))
    merged = {"evaluations": 0, "nt": set(), "labels": collections.Counter(), "excluded": collections.Counter(),
              "units": collections.Counter(), "violations": {}, "samples": [], "exhaustive": hasattr(part, "enumerate"),
              "lost_shards": 0, "part": part.name}
    for p, out, guard, s in procs:
        p.join()
    for p, out, guard, s in procs:
        if os.path.exists(out):
            with open(out) as f:
                r = json.load(f)
            if not r["ok"]:
                raise HarnessError("shard %d of %s: %s" % (s, part.name, r["error"]))
            merged["evaluations"] += r["evaluations"]
            merged["nt"].update(r["nt"])
            merged["labels"].update(r["labels"])
            merged["excluded"].update(r["excluded"])
            merged["units"].update(r["units"])
            merged["samples"].extend(r["samples"])
            for sig, v in r["violations"].items():
                v["shard"] = s
                cur = merged["violations"].get(sig)
                if cur is None:
                    merged["violations"][sig] = v
                else:
                    cur["count"] += v["count"]
                    if len(json.dumps(v["case"])) < len(json.dumps(cur["case"])):
                        v["count"] = cur["count"]
                        merged["violations"][sig] = v
        else:
            # the process died (abort / segfault inside the extension)
            merged["lost_shards"] += 1
            sig = "died:exit%s" % p.exitcode
            case = None
            if not os.path.exists(guard):
                # deterministic re-run of this shard with the case written to disk before every execution
                p2 = ctxm.Process(target=_worker, args=(mod.__name__, part_idx, tier, seed, s, nshards, per, out, guard, True))
                p2.start()
                p2.join()
            if os.path.exists(guard):
                with open(guard) as f:
                    case = json.load(f)["case"]
            if case is None:
                raise HarnessError("shard %d of %s died (exit %s) without a guarded case" % (s, part.name, p.exitcode))
            merged["violations"].setdefault(sig, {"case": case, "detail": "worker process died with exit code %s while running this case" % p.exitcode,
                                                   "count": 1, "part": part.name, "shard": s, "noshrink": True})
    return merged


def shrink(mod, part_idx, tier, seed, v, sig, workdir, budget_s):
    """Re-run the shard that found `sig` with the same seed, failing on sig, so Hypothesis
    shrinks it.  Bounded by wall-clock through a child process; returns the best case."""
    part = mod.PARTS[part_idx]
    if v.get("noshrink") or hasattr(part, "enumerate"):
        return v["case"], v["detail"]
    total = part.budget[tier]
    nshards = min(NSHARDS, max(1, total // max(1, getattr(part, "min_per_shard", 20))))
    per = (total + nshards - 1) // nshards
    best_path = os.path.join(workdir, "shrink-%s.json" % jhash(sig))

    def child():
        try:
            ctx = Ctx(tier)
            run_shard(part, tier, seed * 1000 + v["shard"], per, ctx, None, raise_sig=sig, best_path=best_path)
        except BaseException:
            pass

    ctxm = multiprocessing.get_context("fork")
    p = ctxm.Process(target=child)
    p.start()
    p.join(budget_s)
    if p.is_alive():
        p.terminate()
        p.join(5)
        if p.is_alive():
            p.kill()
    if os.path.exists(best_path):
        with open(best_path) as f:
            b = json.load(f)
        if len(json.dumps(b["case"])) <= len(json.dumps(v["case"])):
            return b["case"], b["detail"] or v["detail"]
    return v["case"], v["detail"]


# --------------------------------------------------------------------------- known findings

def load_known(pid):
    path = os.path.join(VERIF, "known_findings.json")
    if not os.path.exists(path):
        return []
    with open(path) as f:
        data = json.load(f)
    return [e for e in data.get("findings", []) if e["property"] == pid]


def slug(s):
    return "".join(c if c.isalnum() or c in "-_." else "_" for c in s)[:80]


def part_by_name(mod, name):
    for i, p in enumerate(mod.PARTS):
        if p.name == name:
            return i, p
    raise HarnessError("replay names unknown part %r" % name)


def replay_file(mod, path, tier="quick"):
    with open(path) as f:
        r = json.load(f)
    _, part = part_by_name(mod, r["part"])
    ctx = Ctx(tier)
    sigs = run_case(part, r["case"], ctx)
    return r, sigs, ctx


def main(argv=None):
    import argparse
    ap = argparse.ArgumentParser()
    ap.add_argument("prop")
    ap.add_argument("--tier", default=os.environ.get("VERIF_TIER", "quick"), choices=["quick", "thorough"])
    ap.add_argument("--replay")
    ap.add_argument("--parts", help="comma separated subset of part names (debugging)")
    ap.add_argument("--scale", type=float, default=float(os.environ.get("VERIF_SCALE", "1")))
    a = ap.parse_args(argv)
    seed = int(os.environ.get("VERIF_SEED", "1"))
    pid = a.prop.upper()
    t0 = time.time()
    modname = None
    for fn in sorted(os.listdir(os.path.join(VERIF, "props"))):
        if fn.lower().startswith(pid.lower() + "_") and fn.endswith(".py"):
            modname = "props." + fn[:-3]
    if modname is None:
        print("no property module for", pid, file=sys.stderr)
        return 2
    try:
        _quiet_htslib()
        mod = importlib.import_module(modname)
        import whatshap
        tree = os.environ.get("VERIF_TREE")
        if tree and not os.path.abspath(whatshap.__file__).startswith(os.path.abspath(tree)):
            raise HarnessError("whatshap imported from %s, expected build %s" % (whatshap.__file__, tree))

        if a.replay:
            r, sigs, ctx = replay_file(mod, a.replay, a.tier)
            if sigs:
                for s in sorted(set(sigs)):
                    print("VIOLATION property=%s replay=%s signature=%s" % (pid, a.replay, s))
                    print("  " + dict(ctx._case_sigs).get(s, "")[:1500].replace("\n", "\n  "))
                return 1
            print("replay passed: %s" % a.replay)
            return 0

        known = load_known(pid)
        known_sigs = {e["signature"] for e in known if e.get("status") == "known"}
        exit_code = 0
        violations_out = []  # (sig, replay path)
        known_lines = []
        replayed = 0

        # ---- replay tier: every committed reproducer of this property
        rdir = os.path.join(VERIF, "replays", pid)
        known_repros = {os.path.normpath(os.path.join(VERIF, e["repro"])): e for e in known if e.get("repro")}
        if os.path.isdir(rdir):
            for fn in sorted(os.listdir(rdir)):
                if not fn.endswith(".json"):
                    continue
                path = os.path.join(rdir, fn)
                r, sigs, ctx = replay_file(mod, path, a.tier)
                replayed += 1
                e = known_repros.get(os.path.normpath(path))
                if e is not None and e.get("status") == "known":
                    if e["signature"] in sigs:
                        known_lines.append("KNOWN-FINDING: property=%s %s" % (pid, e["what"]))
                    else:
                        print("note: known finding %s no longer reproduces from %s" % (e["signature"], fn))
                    sigs = [s for s in sigs if s != e["signature"]]
                for s in sorted(set(sigs)):
                    violations_out.append((s, os.path.relpath(path, VERIF)))

        # ---- campaign
        workdir = tempfile.mkdtemp(prefix="wv-run-%s-" % pid, dir=scratch_root())
        merged_parts = []
        try:
            want = set(a.parts.split(",")) if a.parts else None
            for i, part in enumerate(mod.PARTS):
                if want and part.name not in want:
                    continue
                if a.scale != 1:
                    part.budget = {k: int(v * a.scale) for k, v in part.budget.items()}
                m = run_part(mod, i, a.tier, seed, workdir)
                if m is None:
                    continue
                merged_parts.append(m)
                todo = [(sig, v) for sig, v in sorted(m["violations"].items()) if sig not in known_sigs]
                budget = 90 if a.tier == "quick" else 300

                def one(item, i=i, part=part, nshrunk=[0]):
                    sig, v = item
                    case, detail = shrink(mod, i, a.tier, seed, v, sig, workdir, budget)
                    return sig, v, case, detail

                from concurrent.futures import ThreadPoolExecutor
                with ThreadPoolExecutor(max_workers=8) as ex:
                    results = list(ex.map(one, todo[:16])) + [(sig, v, v["case"], v["detail"]) for sig, v in todo[16:]]
                for sig, v, case, detail in results:
                    odir = os.path.join(os.environ.get("VERIF_OUT") or os.path.join(VERIF, "out"), "replays", pid)
                    os.makedirs(odir, exist_ok=True)
                    rp = os.path.join(odir, "%s-%s.json" % (slug(sig), jhash(case)))
                    with open(rp, "w") as f:
                        json.dump({"property": pid, "part": part.name, "signature": sig, "detail": detail,
                                   "seed": seed, "tier": a.tier, "count_in_campaign": v["count"], "case": case}, f, indent=1)
                    violations_out.append((sig, os.path.relpath(rp, VERIF)))
        finally:
            shutil.rmtree(workdir, ignore_errors=True)

        # ---- report
        for line in known_lines:
            print(line)
        seen = set()
        for sig, rp in violations_out:
            if (sig, rp) in seen:
                continue
            seen.add((sig, rp))
            print("VIOLATION property=%s replay=%s signature=%s" % (pid, rp, sig))
            exit_code = 1

        ev = 0
        nt = set()
        labels = collections.Counter()
        excluded = collections.Counter()
        units = collections.Counter()
        samples = []
        per_part = {}
        for m in merged_parts:
            ev += m["evaluations"]
            nt.update(m["part"] + ":" + h for h in m["nt"])
            for k, v in m["labels"].items():
                labels[m["part"] + "/" + k] += v
            excluded.update(m["excluded"])
            units.update(m["units"])
            samples.extend(m["samples"][:3])
            per_part[m["part"]] = {"evaluations": m["evaluations"], "distinct_nontrivial": len(m["nt"]),
                                   "exhaustive": m["exhaustive"], "lost_shards": m["lost_shards"],
                                   "known_signature_hits": {s: v["count"] for s, v in m["violations"].items() if s in known_sigs}}
        evidence = {
            "property_id": pid, "tier": a.tier, "seed": seed, "level": "exploration",
            "coverage": {
                "evaluations": ev, "distinct_nontrivial": len(nt), "rule": mod.RULE,
                "samples": samples[:6], "classes": dict(sorted(labels.items())),
                "units": dict(units), "excluded_known": dict(excluded), "parts": per_part,
                "replayed_reproducers": replayed,
                "exhaustive": bool(merged_parts) and all(m["exhaustive"] for m in merged_parts),
                "exhaustive_parts": [m["part"] for m in merged_parts if m["exhaustive"]],
                "known_findings_reported": known_lines,
                "violation_signatures": sorted({s for s, _ in violations_out}),
            },
            "assumptions": list(mod.ASSUMPTIONS),
            "wall_s": round(time.time() - t0, 2),
            "violations": len({s for s, _ in violations_out}),
        }
        # evidence/ describes /repo itself: runs against a scratch copy (mutants, seeded changes) write elsewhere
        edir = os.path.join(VERIF, "evidence")
        if os.path.realpath(os.environ.get("VERIF_REPO") or "/repo") != "/repo":
            edir = os.path.join(os.environ.get("VERIF_OUT") or os.path.join(VERIF, "out"), "evidence")
        os.makedirs(edir, exist_ok=True)
        with open(os.path.join(edir, pid + ".json"), "w") as f:
            json.dump(evidence, f, indent=1, sort_keys=True)
            f.write("\n")
        print("%s tier=%s seed=%d: %d cases, %d distinct non-trivial, %d replayed, %d violation signature(s), %.0fs" % (
            pid, a.tier, seed, ev, len(nt), replayed, evidence["violations"], time.time() - t0))
        return exit_code
    except HarnessError as e:
        print("HARNESS ERROR: %s" % e, file=sys.stderr)
        return 2
    except Exception:
        print("HARNESS ERROR (unexpected):\n" + traceback.format_exc(), file=sys.stderr)
        return 2


if __name__ == "__main__":
    # run through the canonical module object so that exception classes are shared with importers
    from vlib import harness as _canonical
    sys.exit(_canonical.main())
