"""Structured VCF model: generator (Hypothesis draw-based), text writer, htslib-based reader/differ.

A model is plain data:
  {"contigs": [[name, length], ...], "samples": [...],
   "info_defs":   [[id, number, type], ...],
   "format_defs": [[id, number, type], ...]   (GT first when present),
   "filters": [id, ...],
   "records": [ {"chrom", "pos" (1-based), "id", "ref", "alts": [...], "qual": str, "filter": [..],
                 "info": [[key, valuestring-or-None-for-flags], ...],
                 "format": [keys...], "calls": [ {key: valuestring}, ... ] } ]}
All values are already VCF text fragments, so writing is trivial and the comparison side is the
only place where parsing happens (pysam / htslib), on input and output alike.
"""
import math
import pysam
from hypothesis import strategies as st

MISSING = (None, (), (None,), (".",), ".", "")


# --------------------------------------------------------------------------- writer

def header_lines(model):
    out = ["##fileformat=VCFv4.2"]
    for f in model.get("filters", []):
        out.append('##FILTER=<ID=%s,Description="filter %s">' % (f, f))
    for name, length in model["contigs"]:
        out.append("##contig=<ID=%s,length=%d>" % (name, length))
    for i, n, t in model.get("info_defs", []):
        out.append('##INFO=<ID=%s,Number=%s,Type=%s,Description="info %s">' % (i, n, t, i))
    for i, n, t in model.get("format_defs", []):
        out.append('##FORMAT=<ID=%s,Number=%s,Type=%s,Description="format %s">' % (i, n, t, i))
    for extra in model.get("extra_header", []):
        out.append(extra)
    cols = ["#CHROM", "POS", "ID", "REF", "ALT", "QUAL", "FILTER", "INFO"]
    if model["samples"]:
        cols += ["FORMAT"] + list(model["samples"])
    out.append("\t".join(cols))
    return out


def record_line(model, r):
    info = ";".join(k if v is None else "%s=%s" % (k, v) for k, v in r.get("info", [])) or "."
    cols = [r["chrom"], str(r["pos"]), r.get("id") or ".", r["ref"], ",".join(r["alts"]) or ".",
            r.get("qual") or ".", ";".join(r.get("filter") or []) or ".", info]
    if model["samples"]:
        fmt = r["format"]
        cols.append(":".join(fmt) if fmt else ".")
        for call in r["calls"]:
            vals = [call.get(k, ".") for k in fmt]
            # trailing missing fields may be dropped by writers; we always write all of them
            cols.append(":".join(vals) if vals else ".")
    return "\t".join(cols)


def write_vcf(model, path):
    with open(path, "w") as f:
        for l in header_lines(model):
            f.write(l + "\n")
        for r in model["records"]:
            f.write(record_line(model, r) + "\n")
    return path


def bgzip_tabix(path):
    pysam.tabix_compress(path, path + ".gz", force=True)
    pysam.tabix_index(path + ".gz", preset="vcf", force=True)
    return path + ".gz"


# --------------------------------------------------------------------------- reader / differ

def _norm(v):
    if v in MISSING:
        return None
    if isinstance(v, tuple):
        if all(x in (None, ".") for x in v):
            return None
        return tuple(_norm_scalar(x) for x in v)
    return _norm_scalar(v)


def _norm_scalar(x):
    if isinstance(x, float):
        if math.isnan(x):
            return "nan"
        return float("%.5g" % x)
    return x


def read_vcf(path):
    """list of normalised records + header summary, parsed by htslib"""
    out = []
    with pysam.VariantFile(path) as vf:
        hdr = vf.header
        header = {
            "contigs": list(hdr.contigs),
            "info": sorted(hdr.info.keys()),
            "formats": sorted(hdr.formats.keys()),
            "filters": sorted(hdr.filters.keys()),
            "samples": list(hdr.samples),
        }
        for rec in vf:
            info = {}
            for k in rec.info.keys():
                try:
                    info[k] = _norm(rec.info[k])
                except Exception:
                    info[k] = "<unreadable>"
            samples = {}
            for name, call in rec.samples.items():
                d = {}
                for k in rec.format.keys():
                    if k == "GT":
                        continue
                    try:
                        v = _norm(call[k])
                    except Exception:
                        v = "<unreadable>"
                    if v is not None:
                        d[k] = v
                gt = call["GT"] if "GT" in rec.format.keys() else None
                samples[name] = {"GT": tuple(gt) if gt is not None else None,
                                 "phased": bool(call.phased) if gt is not None else False, "fmt": d}
            out.append({
                "chrom": rec.chrom, "pos": rec.pos, "id": rec.id, "ref": rec.ref,
                "alts": tuple(rec.alts) if rec.alts else (), "qual": _norm_scalar(rec.qual) if rec.qual is not None else None,
                "filter": tuple(sorted(rec.filter.keys())), "info": info, "format_keys": list(rec.format.keys()),
                "samples": samples,
            })
    return header, out


def allele_multiset(gt):
    if gt is None:
        return None
    return tuple(sorted((-1 if a is None else a) for a in gt))


SITE_FIELDS = ("chrom", "pos", "id", "ref", "alts", "qual", "filter", "info")


def diff_records(a, b, ignore_format=("PS", "HP", "PQ"), compare_gt="multiset", gt_exact_for=None, fmt_exact_for=None, gt_free_for=None):
    """Compare two parsed record lists (input a, output b). Returns list of (kind, message).
    compare_gt: 'multiset' (allele multiset must agree) / 'exact' / None.
    gt_exact_for(sample, rec) -> True when GT order and phased flag must be untouched.
    fmt_exact_for(sample, rec) -> True when even the ignore_format keys must be untouched.
    gt_free_for(sample, rec) -> True when the tool may re-genotype the call (distrusted genotypes): the output must then be a
    complete genotype of the same ploidy over the record's alleles."""
    out = []
    if len(a) != len(b):
        out.append(("record-count", "%d records in, %d out" % (len(a), len(b))))
        return out
    for i, (x, y) in enumerate(zip(a, b)):
        where = "record %d (%s:%d)" % (i, x["chrom"], x["pos"])
        for f in SITE_FIELDS:
            if x[f] != y[f]:
                out.append(("site-" + f, "%s: %s %r -> %r" % (where, f, x[f], y[f])))
        if list(x["samples"]) != list(y["samples"]):
            out.append(("samples", "%s: samples %r -> %r" % (where, list(x["samples"]), list(y["samples"]))))
            continue
        for s in x["samples"]:
            cx, cy = x["samples"][s], y["samples"][s]
            exact_fmt = fmt_exact_for(s, x) if fmt_exact_for else False
            keys = set(cx["fmt"]) | set(cy["fmt"])
            for k in sorted(keys):
                if k in ignore_format and not exact_fmt:
                    continue
                if cx["fmt"].get(k) != cy["fmt"].get(k):
                    out.append(("format-" + (k if k in ignore_format else "other"), "%s sample %s: FORMAT %s %r -> %r" % (where, s, k, cx["fmt"].get(k), cy["fmt"].get(k))))
            exact_gt = compare_gt == "exact" or (gt_exact_for(s, x) if gt_exact_for else False)
            if exact_gt:
                if cx["GT"] != cy["GT"] or cx["phased"] != cy["phased"]:
                    out.append(("gt-touched", "%s sample %s: GT %r phased=%r -> %r phased=%r" % (where, s, cx["GT"], cx["phased"], cy["GT"], cy["phased"])))
            elif gt_free_for and gt_free_for(s, x) and allele_multiset(cx["GT"]) != allele_multiset(cy["GT"]):
                nall = 1 + len(x["alts"] or ())
                if (cx["GT"] is None or cy["GT"] is None or len(cx["GT"]) != len(cy["GT"])
                        or any(g is None or not (0 <= g < nall) for g in cy["GT"])):
                    out.append(("gt-invalid", "%s sample %s: GT %r -> %r is not a complete genotype of the same ploidy over %d alleles" % (where, s, cx["GT"], cy["GT"], nall)))
            elif compare_gt == "multiset":
                if allele_multiset(cx["GT"]) != allele_multiset(cy["GT"]):
                    out.append(("gt-alleles", "%s sample %s: GT %r -> %r" % (where, s, cx["GT"], cy["GT"])))
    return out


def diff_headers(ha, hb, removed_formats=()):
    out = []
    for key in ("contigs", "info", "formats", "filters"):
        missing = [x for x in ha[key] if x not in hb[key] and not (key == "formats" and x in removed_formats)]
        if missing:
            out.append(("header-" + key, "%s definitions lost: %r" % (key, missing)))
    if ha["samples"] != hb["samples"]:
        out.append(("header-samples", "samples %r -> %r" % (ha["samples"], hb["samples"])))
    return out


# --------------------------------------------------------------------------- generator

BASES = "ACGT"


def _seq(draw, n):
    return "".join(draw(st.sampled_from(BASES)) for _ in range(n))


def gen_alleles(draw, kinds=("snv", "ins", "del", "mnp"), multi=0, symbolic=False):
    """returns (ref, [alts])"""
    kind = draw(st.sampled_from(kinds))
    b = draw(st.sampled_from(BASES))
    other = lambda x: draw(st.sampled_from([c for c in BASES if c != x]))
    if kind == "snv":
        ref, alts = b, [other(b)]
    elif kind == "ins":
        ref, alts = b, [b + _seq(draw, draw(st.integers(1, 3)))]
    elif kind == "del":
        ref = b + _seq(draw, draw(st.integers(1, 3)))
        alts = [b]
    else:
        n = draw(st.integers(2, 3))
        ref = _seq(draw, n)
        alts = ["".join(other(c) for c in ref)]
    for _ in range(multi):
        cand = draw(st.sampled_from([other(ref[0]) + ref[1:], ref + draw(st.sampled_from(BASES)), ref[0] + "TT" + ref[1:]]))
        if cand not in alts and cand != ref:
            alts.append(cand)
    if symbolic:
        alts = ["<DEL>"]
    return ref, alts


def gt_string(alleles, phased):
    return ("|" if phased else "/").join("." if a is None else str(a) for a in alleles)


EXTRA_INFO = [["DP", "1", "Integer"], ["AF", "A", "Float"], ["DB", "0", "Flag"], ["AN", "1", "Integer"],
              ["STR", ".", "String"], ["RAF", "R", "Float"]]
EXTRA_FORMAT = [["DP", "1", "Integer"], ["GQ", "1", "Integer"], ["AD", "R", "Integer"], ["FT", "1", "String"],
                ["XF", "1", "Float"], ["PL", "G", "Integer"]]


def _info_value(draw, d, nalts):
    i, n, t = d
    if t == "Flag":
        return None
    cnt = {"1": 1, "A": nalts, "R": nalts + 1, ".": draw(st.integers(1, 3))}[n]
    vals = []
    for _ in range(cnt):
        if t == "Integer":
            vals.append(str(draw(st.integers(0, 500))))
        elif t == "Float":
            vals.append(draw(st.sampled_from(["0.5", "0.25", "1", "0.125", "3.5", "1e-05", "12.75", "0"])))
        else:
            vals.append(draw(st.sampled_from(["a", "bc", "x_y", "Q1"])))
    return ",".join(vals)


def _format_value(draw, d, nalts, ploidy):
    i, n, t = d
    if draw(st.integers(0, 5)) == 0:
        return "."
    if n == "G":
        cnt = math.comb(ploidy + nalts, nalts) if ploidy else 1
    else:
        cnt = {"1": 1, "A": nalts, "R": nalts + 1, ".": draw(st.integers(1, 3))}[n]
    vals = []
    for _ in range(cnt):
        if t == "Integer":
            vals.append(str(draw(st.integers(0, 99))))
        elif t == "Float":
            vals.append(draw(st.sampled_from(["0.5", "0.25", "1", "2.5", "0"])))
        else:
            vals.append(draw(st.sampled_from(["PASS", "lowq", "k"])))
    return ",".join(vals)


def gen_vcf(draw, *, nsamples=(1, 3), ncontigs=(1, 3), nrecords=(1, 12), ploidy_choices=(2,), per_call_ploidy=False,
            missing=True, partial_missing=True, no_gt_records=False, multiallelic=True, symbolic=False,
            duplicates=True, no_alt=False, phasing=("none", "PS", "HP"), extra_fields=True, ps_type="Integer",
            kinds=("snv", "ins", "del", "mnp"), interleave=True, hom_phased=False, stale_ps=False, filters=True,
            max_alleles_in_gt=None, mixed_separators=False, unsorted_gt=False, modes=("het", "het", "het", "hom", "any", "missing", "partial"), phase_odds=3,
            new_set_odds=2):
    """Generic VCF model generator. `phasing`: encodings that may be chosen *per sample*.
    Returns (model, truth) where truth[(record index, sample index)] describes the call:
       {"alleles": tuple|None, "phased": bool, "set": id|None, "enc": "PS"|"HP"|None}"""
    ns = draw(st.integers(*nsamples))
    samples = ["s%d" % i for i in range(ns)]
    nc = draw(st.integers(*ncontigs))
    contigs = [["chr%d" % (i + 1), 100000] for i in range(nc)]
    info_defs = [d for d in EXTRA_INFO if extra_fields and draw(st.booleans())]
    fmt_extra = [d for d in EXTRA_FORMAT if extra_fields and draw(st.integers(0, 2)) == 0]
    filt = ["q10", "lowcov"] if filters and draw(st.booleans()) else []
    enc = [draw(st.sampled_from(phasing)) for _ in samples]
    sample_ploidy = [draw(st.sampled_from(ploidy_choices)) for _ in samples]
    if not per_call_ploidy:
        sample_ploidy = [sample_ploidy[0]] * ns
    format_defs = [["GT", "1", "String"]]
    if "PS" in phasing or stale_ps:
        format_defs.append(["PS", "1", ps_type])
    if "HP" in phasing:
        format_defs.append(["HP", ".", "String"])
    use_pq = draw(st.booleans()) and ("PS" in phasing or "HP" in phasing)
    if use_pq:
        format_defs.append(["PQ", "1", "Float"])
    format_defs += fmt_extra
    records = []
    truth = {}
    n = draw(st.integers(*nrecords))
    # distribute records over contigs, sorted positions
    per = [0] * nc
    for _ in range(n):
        per[draw(st.integers(0, nc - 1))] += 1
    # current open phase sets per sample: list of ids
    for ci, (cname, _) in enumerate(contigs):
        pos = 0
        open_sets = [[] for _ in samples]
        for k in range(per[ci]):
            dup = duplicates and k > 0 and draw(st.integers(0, 9)) == 0
            if not dup:
                pos += draw(st.integers(1, 60))
            multi = draw(st.integers(1, 2)) if multiallelic and draw(st.integers(0, 5)) == 0 else 0
            sym = symbolic and draw(st.integers(0, 11)) == 0
            ref, alts = gen_alleles(draw, kinds, multi, sym)
            if no_alt and draw(st.integers(0, 14)) == 0:
                alts = []
            nalts = len(alts)
            has_gt = not (no_gt_records and draw(st.integers(0, 7)) == 0)
            fmt = (["GT"] if has_gt else [])
            rec_extra = [d for d in fmt_extra if draw(st.booleans())]
            calls = []
            ridx = len(records)
            any_ps = any_hp = any_pq = False
            for si in range(ns):
                call = {}
                ploidy = sample_ploidy[si]
                if per_call_ploidy and draw(st.integers(0, 3)) == 0:
                    ploidy = draw(st.sampled_from(ploidy_choices))
                t = {"alleles": None, "phased": False, "set": None, "enc": None, "ploidy": ploidy}
                if has_gt:
                    amax = nalts if max_alleles_in_gt is None else min(nalts, max_alleles_in_gt)
                    mode = draw(st.sampled_from(list(modes)))
                    if mode == "missing" and not missing:
                        mode = "het"
                    if mode == "partial" and not (partial_missing and ploidy >= 2):
                        mode = "het"
                    if nalts == 0:
                        mode = "hom" if mode in ("het", "any") else mode
                    if mode == "missing":
                        alleles = [None] * (ploidy if draw(st.booleans()) else 1)
                    elif mode == "hom":
                        a = draw(st.integers(0, amax))
                        alleles = [a] * ploidy
                    elif mode == "het" and ploidy >= 2:
                        alleles = [draw(st.integers(0, amax)) for _ in range(ploidy)]
                        if len(set(alleles)) == 1:
                            alleles[draw(st.integers(0, ploidy - 1))] = (alleles[0] + 1) % (amax + 1) if amax else alleles[0]
                    else:
                        alleles = [draw(st.integers(0, amax)) for _ in range(ploidy)]
                    if mode == "partial":
                        alleles = [draw(st.integers(0, amax)) for _ in range(ploidy)]
                        alleles[draw(st.integers(0, ploidy - 1))] = None
                    if unsorted_gt and all(a is not None for a in alleles) and draw(st.booleans()):
                        alleles = sorted(alleles, reverse=True)
                    complete = all(a is not None for a in alleles)
                    het = complete and len(set(alleles)) > 1
                    e = enc[si]
                    want_phase = e != "none" and draw(st.integers(0, phase_odds)) > 0 and len(alleles) >= 2
                    if want_phase and not het and not (hom_phased or not complete):
                        want_phase = False
                    if want_phase and not complete and not partial_missing:
                        want_phase = False
                    phased_flag = False
                    if want_phase:
                        # choose a phase set: continue an open one or start a new one
                        if open_sets[si] and draw(st.integers(0, new_set_odds)) > 0:
                            sid = draw(st.sampled_from(open_sets[si])) if interleave else open_sets[si][-1]
                        else:
                            sid = pos if draw(st.integers(0, 4)) > 0 else draw(st.integers(1, 99999))
                            if sid not in open_sets[si]:
                                open_sets[si].append(sid)
                            if not interleave:
                                open_sets[si] = [sid]
                        t["set"] = sid
                        t["enc"] = e
                        if e == "PS":
                            phased_flag = True
                            no_ps = draw(st.integers(0, 11)) == 0
                            if no_ps:
                                t["set"] = 0
                            else:
                                call["PS"] = str(sid)
                                any_ps = True
                        else:
                            order = draw(st.permutations(list(range(1, len(alleles) + 1))))
                            call["HP"] = ",".join("%d-%d" % (sid, h) for h in order)
                            t["hp_order"] = list(order)
                            any_hp = True
                        if use_pq and draw(st.booleans()):
                            call["PQ"] = draw(st.sampled_from(["10", "23.5", "99"]))
                            any_pq = True
                        t["phased"] = True
                    elif stale_ps and draw(st.integers(0, 5)) == 0:
                        call["PS"] = str(draw(st.integers(1, 999)))
                        any_ps = True
                    call["GT"] = gt_string(alleles, phased_flag)
                    if mixed_separators and len(alleles) >= 3 and draw(st.integers(0, 3)) == 0:
                        # VCF allows both separators inside one polyploid genotype ('1|0/1')
                        seps = [draw(st.sampled_from("/|")) for _ in range(len(alleles) - 1)]
                        if "|" in seps:
                            parts = ["." if a is None else str(a) for a in alleles]
                            call["GT"] = parts[0] + "".join(sp + x for sp, x in zip(seps, parts[1:]))
                            t["mixed_separators"] = True
                    t["alleles"] = tuple(alleles)
                    t["gt_phased_flag"] = phased_flag
                elif stale_ps and draw(st.integers(0, 2)) == 0:
                    # a record without GT may still carry left-over phase tags (e.g. after an upstream step removed GT)
                    call["PS"] = str(draw(st.integers(1, 999)))
                    any_ps = True
                    if use_pq and draw(st.booleans()):
                        call["PQ"] = "10"
                        any_pq = True
                for d in rec_extra:
                    call[d[0]] = _format_value(draw, d, nalts, ploidy)
                calls.append(call)
                truth[(ridx, si)] = t
            if any_ps:
                fmt.append("PS")
            if any_hp:
                fmt.append("HP")
            if any_pq:
                fmt.append("PQ")
            fmt += [d[0] for d in rec_extra]
            info = [[d[0], _info_value(draw, d, nalts)] for d in info_defs if draw(st.booleans()) and not (d[1] in "AR" and nalts == 0)]
            if sym:
                info.append(["END", str(pos + 10)])
            rec = {"chrom": cname, "pos": pos, "id": draw(st.sampled_from([None, None, "rs%d" % pos])), "ref": ref, "alts": alts,
                   "qual": draw(st.sampled_from([None, "30", "12.5", "0", "999"])),
                   "filter": draw(st.sampled_from([[], ["PASS"]] + ([["q10"], ["q10", "lowcov"]] if filt else []))),
                   "info": info, "format": fmt, "calls": calls}
            records.append(rec)
    if symbolic and not any(d[0] == "END" for d in info_defs):
        info_defs = info_defs + [["END", "1", "Integer"]]
    model = {"contigs": contigs, "samples": samples, "info_defs": info_defs, "format_defs": format_defs,
             "filters": filt, "records": records, "enc": enc}
    tr = [[truth[(r, s)] for s in range(ns)] for r in range(len(records))]
    return model, tr
