"""Content-addressed out-of-tree build of the current working tree of $VERIF_REPO.

Two levels, both keyed by sha256 of file contents (never mtimes):
  ext-<key>   compiled extension modules; key = setup.py, pyproject.toml, src/**,
              whatshap/**/*.{pyx,pxd}
  tree-<key>  importable package: the repo's whatshap/**/*.{py,pyi} copied, the
              .so files of the matching ext build hard-linked in.
`ensure()` returns the tree directory to put first on PYTHONPATH.
"""
import fcntl, hashlib, os, shutil, subprocess, sys, time

REPO = os.environ.get("VERIF_REPO", "/repo")
ROOT = os.environ.get("VERIF_BUILD_ROOT") or os.path.join(os.environ.get("TMPDIR", "/var/tmp"), "whatshap-verif-build")
PY = os.environ.get("VERIF_PYTHON", "/venv/bin/python")
HERE = os.path.dirname(os.path.abspath(__file__))
KEEP = int(os.environ.get("VERIF_BUILD_KEEP", "16"))


class BuildError(Exception):
    pass


def _files(repo):
    ext, py = [], []
    for top in ("setup.py", "pyproject.toml", "MANIFEST.in"):
        if os.path.exists(os.path.join(repo, top)):
            ext.append(top)
    for base in ("src", "whatshap"):
        for d, dirs, fs in os.walk(os.path.join(repo, base)):
            dirs[:] = sorted(x for x in dirs if x != "__pycache__")
            for f in sorted(fs):
                rel = os.path.relpath(os.path.join(d, f), repo)
                if base == "src":
                    ext.append(rel)
                elif f.endswith((".pyx", ".pxd")):
                    ext.append(rel)
                elif f.endswith((".py", ".pyi")) and f != "_version.py":
                    py.append(rel)
    return ext, py


def _hash(repo, rels, extra=b""):
    h = hashlib.sha256(extra)
    for rel in rels:
        h.update(rel.encode() + b"\0")
        with open(os.path.join(repo, rel), "rb") as f:
            h.update(hashlib.sha256(f.read()).digest())
    return h.hexdigest()[:20]


def _copy(repo, rels, dst):
    for rel in rels:
        t = os.path.join(dst, rel)
        os.makedirs(os.path.dirname(t), exist_ok=True)
        shutil.copyfile(os.path.join(repo, rel), t)


VERSION_PY = "__version__ = version = '0+verif'\n__version_tuple__ = version_tuple = (0, 'verif')\n"


def _build_ext(repo, ext, py, extdir, log):
    tmp = extdir + ".partial"
    shutil.rmtree(tmp, ignore_errors=True)
    os.makedirs(tmp)
    _copy(repo, ext + py, tmp)
    with open(os.path.join(tmp, "whatshap", "_version.py"), "w") as f:
        f.write(VERSION_PY)
    env = dict(os.environ)
    env.update(CFLAGS="-g0", SETUPTOOLS_SCM_PRETEND_VERSION="0.0.0", PYTHONHASHSEED="0")
    env.pop("PYTHONPATH", None)
    t0 = time.time()
    p = subprocess.run([PY, os.path.join(HERE, "_build_driver.py")], cwd=tmp, env=env,
                       stdout=subprocess.PIPE, stderr=subprocess.STDOUT, text=True)
    with open(log, "w") as f:
        f.write(p.stdout)
    if p.returncode != 0:
        shutil.rmtree(tmp, ignore_errors=True)
        raise BuildError("extension build failed (see %s)\n%s" % (log, p.stdout[-3000:]))
    sos = []
    for d, _, fs in os.walk(os.path.join(tmp, "whatshap")):
        for f in fs:
            if f.endswith(".so"):
                sos.append(os.path.relpath(os.path.join(d, f), tmp))
    if len(sos) < 6:
        raise BuildError("expected 6 extension modules, got %r" % sos)
    os.makedirs(extdir + ".stage")
    for rel in sos:
        t = os.path.join(extdir + ".stage", rel)
        os.makedirs(os.path.dirname(t), exist_ok=True)
        shutil.move(os.path.join(tmp, rel), t)
    shutil.rmtree(tmp, ignore_errors=True)
    with open(os.path.join(extdir + ".stage", ".ok"), "w") as f:
        f.write("%.1f\n" % (time.time() - t0))
    os.rename(extdir + ".stage", extdir)


def _prune(keep_names):
    ents = []
    for n in os.listdir(ROOT):
        p = os.path.join(ROOT, n)
        if (n.startswith("ext-") or n.startswith("tree-")) and os.path.isdir(p) and n not in keep_names:
            ents.append((os.path.getmtime(p), n))
    for kind in ("ext-", "tree-"):
        ks = sorted((e for e in ents if e[1].startswith(kind)), reverse=True)
        for _, n in ks[KEEP:]:
            shutil.rmtree(os.path.join(ROOT, n), ignore_errors=True)


def ensure(repo=None, verbose=True):
    repo = repo or REPO
    os.makedirs(ROOT, exist_ok=True)
    ext, py = _files(repo)
    pyver = ("%s|%s" % (sys.version, PY)).encode()
    ekey = _hash(repo, ext, pyver)
    tkey = _hash(repo, py, ekey.encode())
    extdir = os.path.join(ROOT, "ext-" + ekey)
    treedir = os.path.join(ROOT, "tree-" + tkey)
    if os.path.exists(os.path.join(treedir, ".ok")):
        os.utime(treedir, None)
        return treedir
    with open(os.path.join(ROOT, ".lock"), "w") as lk:
        fcntl.flock(lk, fcntl.LOCK_EX)
        if os.path.exists(os.path.join(treedir, ".ok")):
            return treedir
        if not os.path.exists(os.path.join(extdir, ".ok")):
            shutil.rmtree(extdir, ignore_errors=True)
            shutil.rmtree(extdir + ".stage", ignore_errors=True)
            if verbose:
                print("[build] compiling extensions of %s -> %s" % (repo, extdir), file=sys.stderr, flush=True)
            t0 = time.time()
            _build_ext(repo, ext, py, extdir, os.path.join(ROOT, "ext-%s.log" % ekey))
            if verbose:
                print("[build] done in %.0fs" % (time.time() - t0), file=sys.stderr, flush=True)
        os.utime(extdir, None)
        tmp = treedir + ".partial"
        shutil.rmtree(tmp, ignore_errors=True)
        os.makedirs(tmp)
        _copy(repo, py, tmp)
        with open(os.path.join(tmp, "whatshap", "_version.py"), "w") as f:
            f.write(VERSION_PY)
        for d, _, fs in os.walk(extdir):
            for f in fs:
                if f.endswith(".so"):
                    rel = os.path.relpath(os.path.join(d, f), extdir)
                    t = os.path.join(tmp, rel)
                    os.makedirs(os.path.dirname(t), exist_ok=True)
                    try:
                        os.link(os.path.join(d, f), t)
                    except OSError:
                        shutil.copyfile(os.path.join(d, f), t)
        with open(os.path.join(tmp, ".ok"), "w") as f:
            f.write(repo + "\n")
        shutil.rmtree(treedir, ignore_errors=True)
        os.rename(tmp, treedir)
        _prune({os.path.basename(extdir), os.path.basename(treedir)})
    return treedir


if __name__ == "__main__":
    try:
        print(ensure())
    except BuildError as e:
        print("BUILD ERROR:", e, file=sys.stderr)
        sys.exit(2)
