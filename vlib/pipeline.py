"""Shared helpers for pipeline-level properties: case generation, materialisation, in-process runs of
`whatshap phase` with the trace hook, decoding of phased VCFs."""
import contextlib, io, json, os
import pysam
from hypothesis import strategies as st

from vlib import genome as G


# --------------------------------------------------------------------------- generation

def snap_segments(segments, variants, L, pad=2):
    """move segment boundaries so that no visible/hidden variant is cut: every variant is either inside a segment
    together with `pad` flanking bases or not touched at all"""
    out = []
    for s, e in segments:
        changed = True
        while changed and e > s:
            changed = False
            for v in variants:
                lo, hi = v["pos"] - pad, v["pos"] + len(v["ref"]) + pad
                if lo < s < hi:
                    s = hi
                    changed = True
                if lo < e < hi:
                    e = lo
                    changed = True
        s, e = max(0, s), min(L, e)
        if e - s >= 5:
            out.append([s, e])
    return out


def gen_case(draw, *, ncontigs=(1, 2), length=(400, 1200), nsamples=(1, 2), mingap=30, maxgap=110, maxlen=4,
             kinds=("snv", "snv", "snv", "ins", "del", "mnp"), depth=(2, 12), read_len=(60, 350), paired_share=20, skip_share=0,
             clip_share=10, eqx_share=5, ploidy=2, sample_names=None, sparse_contig_share=0, unsorted_gt_share=0):
    nc = draw(st.integers(*ncontigs))
    contigs = []
    variants = {}
    for ci in range(nc):
        L = draw(st.integers(*length))
        seq = G.random_seq(draw(st.integers(0, 10 ** 6)), L)
        name = "chr%d" % (ci + 1)
        contigs.append({"name": name, "seq": seq})
        variants[name] = G.gen_contig_variants(draw, seq, mingap=mingap, maxgap=maxgap, kinds=kinds, maxlen=maxlen)
    ns = draw(st.integers(*nsamples))
    samples = list(sample_names) if sample_names else ["s%d" % i for i in range(ns)]
    haps = {}
    for s in samples:
        haps[s] = {c["name"]: G.gen_haplotypes(draw, len(variants[c["name"]]), ploidy) for c in contigs}
    case = {"contigs": contigs, "variants": variants, "samples": samples, "haps": haps}
    if unsorted_gt_share and draw(st.integers(0, 99)) < unsorted_gt_share:
        # some unphased genotypes are spelled with descending alleles ('1/0')
        case["unsorted_gt"] = {s: {c["name"]: [vi for vi in range(len(variants[c["name"]])) if draw(st.integers(0, 2)) == 0] for c in contigs} for s in samples}
    specs = []
    for s in samples:
        for c in contigs:
            L = len(c["seq"])
            if sparse_contig_share and draw(st.integers(0, 99)) < sparse_contig_share:
                n = draw(st.integers(0, 2))
            else:
                d = draw(st.integers(*depth))
                mean = (read_len[0] + read_len[1]) / 2
                n = max(1, int(d * L / mean))
            sp = G.gen_reads_for(draw, case, s, c["name"], nreads=n, length=read_len, paired_share=paired_share,
                                 skip_share=skip_share, clip_share=clip_share, eqx_share=eqx_share)
            for r in sp:
                r["segments"] = snap_segments(r["segments"], variants[c["name"]], L)
                if "pair" in r:
                    p = snap_segments([r["pair"]], variants[c["name"]], L)
                    if p:
                        r["pair"] = p[0]
                    else:
                        del r["pair"]
            specs += [r for r in sp if r["segments"]]
    case["read_specs"] = specs
    return case


# --------------------------------------------------------------------------- materialise & run

def materialise(case, d, *, vcf_kwargs=None, bam_samples=None):
    paths = {"ref": G.write_fasta(case["contigs"], os.path.join(d, "ref.fa")),
             "vcf": G.write_vcf(case, os.path.join(d, "in.vcf"), **(vcf_kwargs or {}))}
    reads = G.render_specs(case, case["read_specs"])
    case_reads = reads
    if reads:
        paths["bam"] = G.write_bam(case, reads, os.path.join(d, "reads.bam"))
    return paths, case_reads


def read_trace(path):
    out = []
    if os.path.exists(path):
        with open(path) as f:
            for line in f:
                out.append(json.loads(line))
    return out


def run_phase(d, vcf, inputs, *, reference=None, tag="PS", out_name="out.vcf", trace=True, **kw):
    """in-process run of whatshap phase; returns (output path, trace records)"""
    from whatshap.cli.phase import run_whatshap
    out = os.path.join(d, out_name)
    tpath = os.path.join(d, out_name + ".trace.jsonl")
    if os.path.exists(tpath):
        os.remove(tpath)
    old = os.environ.get("WHATSHAP_VERIF_TRACE")
    if trace:
        os.environ["WHATSHAP_VERIF_TRACE"] = tpath
    try:
        buf = io.StringIO()
        with contextlib.redirect_stdout(buf), contextlib.redirect_stderr(buf):
            with open(out, "w") as fo:
                run_whatshap(phase_input_files=list(inputs), variant_file=vcf, reference=reference if reference else False,
                             output=fo, tag=tag, write_command_line_header=False, **kw)
    finally:
        if old is None:
            os.environ.pop("WHATSHAP_VERIF_TRACE", None)
        else:
            os.environ["WHATSHAP_VERIF_TRACE"] = old
    check_readable(out, "phase")
    return out, read_trace(tpath)


def check_readable(path, what):
    """a VCF written by the code under test must at least be parseable by htslib"""
    from vlib.harness import OutputError
    try:
        with pysam.VariantFile(path) as vf:
            for rec in vf:
                for call in rec.samples.values():
                    for k in rec.format.keys():
                        call[k]
    except Exception as e:
        tail = ""
        try:
            with open(path, errors="replace") as f:
                tail = f.read()[-400:]
        except Exception:
            pass
        raise OutputError(what + ":output-unreadable", "htslib cannot parse the output VCF (%s: %s); end of file: %r" % (type(e).__name__, e, tail))


def decode_phasing(path):
    """{sample: {(chrom, pos0): (alleles in haplotype order, set id)}} for phased calls, decoded with pysam only.
    PS: phased GT (+ PS, default 0). HP: 'id-k' entries name the haplotype of each listed allele."""
    res = {}
    with pysam.VariantFile(path) as vf:
        for rec in vf:
            for s, call in rec.samples.items():
                gt = call["GT"] if "GT" in rec.format.keys() else None
                if gt is None or any(a is None for a in gt):
                    continue
                hp = call["HP"] if "HP" in rec.format.keys() else None
                if hp is not None and hp != (".",) and hp != (None,) and all(x is not None for x in hp):
                    ids = [x.split("-") for x in hp]
                    sid = int(ids[0][0])
                    order = [int(x[1]) - 1 for x in ids]
                    al = [None] * len(order)
                    for a, k in zip(gt, order):
                        al[k] = a
                    res.setdefault(s, {})[(rec.chrom, rec.start)] = (tuple(al), sid, "HP")
                elif call.phased and len(set(gt)) > 1:
                    ps = call["PS"] if "PS" in rec.format.keys() else None
                    res.setdefault(s, {})[(rec.chrom, rec.start)] = (tuple(gt), 0 if ps is None else ps, "PS")
    return res


def naive_components(position_lists, extra_merge=None):
    """connectivity by relabelling: returns {position: min position of its component}"""
    label = {}
    for pl in position_lists:
        for p in pl:
            label.setdefault(p, p)
    for p in (extra_merge or []):
        label.setdefault(p, p)

    def merge(a, b):
        la, lb = label[a], label[b]
        if la == lb:
            return
        lo, hi = min(la, lb), max(la, lb)
        for k in label:
            if label[k] == hi:
                label[k] = lo

    for pl in position_lists:
        for p in pl[1:]:
            merge(pl[0], p)
    if extra_merge:
        em = list(extra_merge)
        for p in em[1:]:
            merge(em[0], p)
    return label
