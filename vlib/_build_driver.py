"""Run the repository's own setup.py (build_ext -i) inside a scratch copy, with
distutils' per-file compile step parallelised.  Flags, sources and extension
definitions all come from the repository's setup.py."""
import os, runpy, sys
from multiprocessing.pool import ThreadPool

N = int(os.environ.get("VERIF_BUILD_JOBS", "16"))


def _patch(ccompiler_mod):
    def compile(self, sources, output_dir=None, macros=None, include_dirs=None, debug=0,
                extra_preargs=None, extra_postargs=None, depends=None):
        macros, objects, extra_postargs, pp_opts, build = self._setup_compile(
            output_dir, macros, include_dirs, sources, depends, extra_postargs)
        cc_args = self._get_cc_args(pp_opts, debug, extra_preargs)

        def one(obj):
            try:
                src, ext = build[obj]
            except KeyError:
                return
            self._compile(obj, src, ext, cc_args, extra_postargs, pp_opts)

        list(ThreadPool(N).imap(one, objects))
        return objects

    ccompiler_mod.CCompiler.compile = compile


def main():
    import setuptools  # noqa: F401  (installs its distutils)
    patched = False
    for name in ("setuptools._distutils.compilers.C.base", "setuptools._distutils.ccompiler", "distutils.ccompiler"):
        try:
            mod = __import__(name, fromlist=["CCompiler"])
            if hasattr(mod, "CCompiler") or hasattr(mod, "Compiler"):
                if not hasattr(mod, "CCompiler"):
                    mod.CCompiler = mod.Compiler
                _patch(mod)
                patched = True
        except Exception:
            continue
    if not patched:
        print("note: could not parallelise compile step", file=sys.stderr)
    sys.argv = ["setup.py", "build_ext", "-i", "-j", "6"]
    runpy.run_path("setup.py", run_name="__main__")


if __name__ == "__main__":
    main()
