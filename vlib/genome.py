"""Genome / variant / haplotype / read model with FASTA, VCF, BAM and PED writers.

All coordinates are 0-based. A *pipeline case* is plain data:
  contigs   [{"name", "seq"}]
  variants  {contig: [{"pos", "ref", "alt", "hidden"?}]}   sorted by pos, VCF style (anchor base for indels)
  samples   [name, ...]
  haps      {sample: {contig: [[allele per variant] per haplotype]}}
  reads     [{"name", "sample", "chrom", "hap", "segments": [[start, end], ...], ...render options}]
The harness owns the ground truth: reads are rendered as exact copies of a haplotype.
"""
import os, random
import pysam
from hypothesis import strategies as st

BASES = "ACGT"


# --------------------------------------------------------------------------- variants

def normalise(pos, ref, alt):
    """suffix-then-prefix trimming, as whatshap's VcfVariant.normalized()"""
    while ref and alt and ref[-1] == alt[-1]:
        ref, alt = ref[:-1], alt[:-1]
    while ref and alt and ref[0] == alt[0]:
        ref, alt = ref[1:], alt[1:]
        pos += 1
    return pos, ref, alt


def vtype(v):
    _, r, a = normalise(v["pos"], v["ref"], v["alt"])
    if len(r) == 1 and len(a) == 1:
        return "snv"
    if not r:
        return "ins"
    if not a:
        return "del"
    if len(r) == len(a):
        return "mnp"
    return "complex"


def random_seq(seed, n):
    rng = random.Random(seed)
    return "".join(rng.choice(BASES) for _ in range(n))


def gen_contig_variants(draw, seq, *, mingap=30, maxgap=90, kinds=("snv", "snv", "snv", "ins", "del", "mnp"), maxlen=4,
                        margin=25, maxvars=40, hidden_share=0):
    """well separated variants on one contig"""
    out = []
    p = margin + draw(st.integers(0, maxgap))
    while p < len(seq) - margin - maxlen - 2 and len(out) < maxvars:
        kind = draw(st.sampled_from(kinds))
        b = seq[p]
        if kind == "snv":
            ref, alt = b, draw(st.sampled_from([c for c in BASES if c != b]))
        elif kind == "ins":
            n = draw(st.integers(1, maxlen))
            ins = "".join(draw(st.sampled_from(BASES)) for _ in range(n))
            ref, alt = b, b + ins
        elif kind == "del":
            n = draw(st.integers(1, maxlen))
            ref, alt = seq[p:p + 1 + n], b
        else:
            n = draw(st.integers(2, max(2, maxlen)))
            ref = seq[p:p + n]
            alt = "".join(draw(st.sampled_from([c for c in BASES if c != x])) for x in ref)
        v = {"pos": p, "ref": ref, "alt": alt}
        if hidden_share and draw(st.integers(0, 99)) < hidden_share and kind in ("ins", "del"):
            v["hidden"] = True
        out.append(v)
        p += len(ref) + mingap + draw(st.integers(0, maxgap - mingap))
    return out


def gen_haplotypes(draw, nvars, ploidy=2, het_bias=True):
    """list of `ploidy` allele lists; with het_bias most sites are heterozygous"""
    haps = [[0] * nvars for _ in range(ploidy)]
    for i in range(nvars):
        al = [draw(st.integers(0, 1)) for _ in range(ploidy)]
        if het_bias and len(set(al)) == 1 and draw(st.integers(0, 4)) > 0:
            al[draw(st.integers(0, ploidy - 1))] ^= 1
        for h in range(ploidy):
            haps[h][i] = al[h]
    return haps


# --------------------------------------------------------------------------- read rendering

def _push(ops, op, n):
    if n <= 0:
        return
    if ops and ops[-1][0] == op:
        ops[-1][1] += n
    else:
        ops.append([op, n])


def render_segment(refseq, altvars, start, end):
    """Copy of the haplotype carrying the ALT allele of `altvars` (normalised dicts npos/nref/nalt, sorted,
    non-overlapping) over reference interval [start, end). Returns (seq, ops, start, end); start/end may be moved
    so that no deletion is cut."""
    for v in altvars:
        a, b = v["npos"], v["npos"] + len(v["nref"])
        if v["nref"] and not v["nalt"]:
            if a <= start < b:
                start = b
            if a < end <= b:
                end = a
    if end <= start:
        return "", [], start, start
    seq = []
    ops = []
    cur = start
    for v in altvars:
        a, b = v["npos"], v["npos"] + len(v["nref"])
        if not v["nref"]:  # insertion between a-1 and a
            if not (start < a < end):
                continue
            seq.append(refseq[cur:a])
            _push(ops, "M", a - cur)
            seq.append(v["nalt"])
            _push(ops, "I", len(v["nalt"]))
            cur = a
        elif not v["nalt"]:  # deletion of [a, b)
            if b <= start or a >= end:
                continue
            seq.append(refseq[cur:a])
            _push(ops, "M", a - cur)
            _push(ops, "D", b - a)
            cur = b
        else:
            if b <= start or a >= end:
                continue
            lo, hi = max(a, start), min(b, end)
            seq.append(refseq[cur:lo])
            _push(ops, "M", lo - cur)
            if len(v["nref"]) == len(v["nalt"]):
                seq.append(v["nalt"][lo - a:hi - a])
                _push(ops, "M", hi - lo)
            else:
                # complex: substitute, then insert / delete the remainder (only when fully inside)
                if lo != a or hi != b:
                    seq.append(refseq[lo:hi])
                    _push(ops, "M", hi - lo)
                else:
                    k = min(len(v["nref"]), len(v["nalt"]))
                    seq.append(v["nalt"][:k])
                    _push(ops, "M", k)
                    if len(v["nalt"]) > k:
                        seq.append(v["nalt"][k:])
                        _push(ops, "I", len(v["nalt"]) - k)
                    else:
                        _push(ops, "D", len(v["nref"]) - k)
            cur = hi
    seq.append(refseq[cur:end])
    _push(ops, "M", end - cur)
    return "".join(seq), ops, start, end


def render_read(refseq, variants, hap_alleles, segments, *, clips=None, eqx=False):
    """segments: list of [start, end) joined by N. clips: (left_soft, right_soft, left_hard, right_hard) base strings/ints"""
    altvars = []
    for v, al in zip(variants, hap_alleles):
        if al:
            # allele 1 = v["alt"], allele 2 = v["alt2"] (multi-allelic records)
            npos, nref, nalt = normalise(v["pos"], v["ref"], v["alt"] if al == 1 else v["alt2"])
            altvars.append({"npos": npos, "nref": nref, "nalt": nalt})
    altvars.sort(key=lambda x: x["npos"])
    seq = []
    ops = []
    real_segments = []
    prev_end = None
    first = None
    for s, e in segments:
        sseq, sops, s2, e2 = render_segment(refseq, altvars, s, e)
        if not sops:
            continue
        if prev_end is not None:
            if s2 <= prev_end:
                continue
            _push(ops, "N", s2 - prev_end)
        else:
            first = s2
        seq.append(sseq)
        for op, n in sops:
            _push(ops, op, n)
        real_segments.append([s2, e2])
        prev_end = e2
    if first is None:
        return None
    seq = "".join(seq)
    if eqx:
        ops = to_eqx(ops, seq, refseq, first)
    if clips:
        ls, rs, lh, rh = clips
        if ls:
            seq = ls + seq
            ops.insert(0, ["S", len(ls)])
        if rs:
            seq = seq + rs
            ops.append(["S", len(rs)])
        if lh:
            ops.insert(0, ["H", lh])
        if rh:
            ops.append(["H", rh])
    return {"pos": first, "seq": seq, "cigar": "".join("%d%s" % (n, op) for op, n in ops), "segments": real_segments}


def to_eqx(ops, seq, refseq, pos):
    out = []
    q = 0
    r = pos
    for op, n in ops:
        if op == "M":
            for k in range(n):
                _push(out, "=" if seq[q + k] == refseq[r + k] else "X", 1)
            q += n
            r += n
        else:
            out.append([op, n])
            if op in ("I", "S"):
                q += n
            elif op in ("D", "N"):
                r += n
    return out


def cigar_blocks(pos, cigar):
    """reference intervals of the read: aligned blocks (maximal runs without N) and covered (M/=/X/D) intervals"""
    import re
    blocks = []
    covered = []
    r = pos
    bstart = None
    for n, op in re.findall(r"(\d+)([MIDNSHP=X])", cigar):
        n = int(n)
        if op in "M=XD":
            if bstart is None:
                bstart = r
            covered.append((r, r + n))
            r += n
        elif op == "N":
            if bstart is not None:
                blocks.append((bstart, r))
                bstart = None
            r += n
    if bstart is not None:
        blocks.append((bstart, r))
    return blocks, covered


def coverage_class(read, v):
    """C06 geometry of (read, VCF record): 'full' / 'none' / 'partial'"""
    blocks, covered = cigar_blocks(read["pos"], read["cigar"])
    a, b = v["pos"], v["pos"] + len(v["ref"])
    if not any(lo < b and a < hi for lo, hi in covered):
        return "none"
    if any(lo <= a - 1 and b + 1 <= hi for lo, hi in blocks):
        return "full"
    return "partial"


# --------------------------------------------------------------------------- writers

def write_fasta(contigs, path):
    with open(path, "w") as f:
        for c in contigs:
            f.write(">%s\n" % c["name"])
            s = c["seq"]
            for i in range(0, len(s), 60):
                f.write(s[i:i + 60] + "\n")
    pysam.faidx(path)
    return path


def gt_of(haps_c, vi, phased=False):
    al = [h[vi] for h in haps_c]
    if phased:
        return "|".join(map(str, al))
    return "/".join(map(str, sorted(al)))


def write_vcf(case, path, *, samples=None, phased=None, extra_format=None, header_extra=(), gts=None):
    """Unphased (or, with phased={sample: {contig: {variant index: set id}}}, PS-phased) VCF of the visible variants.
    gts: optional override {sample: {contig: [gt string per variant]}}"""
    samples = samples or case["samples"]
    with open(path, "w") as f:
        f.write("##fileformat=VCFv4.2\n")
        for c in case["contigs"]:
            f.write("##contig=<ID=%s,length=%d>\n" % (c["name"], len(c["seq"])))
        f.write('##FORMAT=<ID=GT,Number=1,Type=String,Description="Genotype">\n')
        if phased:
            f.write('##FORMAT=<ID=PS,Number=1,Type=Integer,Description="Phase set">\n')
        for h in header_extra:
            f.write(h + "\n")
        f.write("#CHROM\tPOS\tID\tREF\tALT\tQUAL\tFILTER\tINFO\tFORMAT\t" + "\t".join(samples) + "\n")
        for c in case["contigs"]:
            for vi, v in enumerate(case["variants"][c["name"]]):
                if v.get("hidden"):
                    continue
                cols = []
                anyps = False
                for s in samples:
                    if gts is not None:
                        cols.append(gts[s][c["name"]][vi])
                        continue
                    hc = case["haps"][s][c["name"]]
                    sid = phased.get(s, {}).get(c["name"], {}).get(vi) if phased else None
                    al = [h[vi] for h in hc]
                    if sid is not None and len(set(al)) > 1:
                        cols.append(gt_of(hc, vi, True) + ":%d" % sid)
                        anyps = True
                    else:
                        g = gt_of(hc, vi)
                        if vi in case.get("unsorted_gt", {}).get(s, {}).get(c["name"], ()):
                            g = "/".join(reversed(g.split("/")))    # legal VCF: unphased alleles in descending order ('1/0')
                        cols.append(g + (":." if phased else ""))
                fmt = "GT:PS" if phased else "GT"
                alt = v["alt"] + ("," + v["alt2"] if v.get("alt2") else "")
                f.write("%s\t%d\t.\t%s\t%s\t.\tPASS\t.\t%s\t%s\n" % (c["name"], v["pos"] + 1, v["ref"], alt, fmt, "\t".join(cols)))
    return path


def write_bam(case, reads, path, *, read_groups=True, extra_rg=None, sort=True):
    """reads: rendered read dicts with keys name, chrom, pos, cigar, seq, sample, flag?, mapq?, qual?, tags?"""
    names = [c["name"] for c in case["contigs"]]
    header = {"HD": {"VN": "1.6", "SO": "unsorted"}, "SQ": [{"SN": c["name"], "LN": len(c["seq"])} for c in case["contigs"]]}
    if read_groups:
        header["RG"] = [{"ID": "rg_" + s, "SM": s} for s in case["samples"]] + list(extra_rg or [])
    tmp = path + ".unsorted.bam" if sort else path
    with pysam.AlignmentFile(tmp, "wb", header=header) as out:
        for r in reads:
            a = pysam.AlignedSegment(out.header)
            a.query_name = r["name"]
            a.flag = r.get("flag", 0)
            if r.get("unmapped"):
                a.reference_id = names.index(r["chrom"]) if r.get("chrom") else -1
                a.reference_start = r.get("pos", -1)
                a.mapping_quality = 0
            else:
                a.reference_id = names.index(r["chrom"])
                a.reference_start = r["pos"]
                a.mapping_quality = r.get("mapq", 60)
                a.cigarstring = r["cigar"]
            a.query_sequence = r["seq"]
            q = r.get("qual")
            if q is None:
                q = [40] * len(r["seq"])
            elif isinstance(q, int):
                q = [q] * len(r["seq"])
            a.query_qualities = pysam.qualitystring_to_array("".join(chr(33 + x) for x in q))
            if r.get("mate"):
                m = r["mate"]
                a.next_reference_id = names.index(m["chrom"])
                a.next_reference_start = m["pos"]
                a.template_length = m.get("tlen", 0)
            if read_groups and r.get("rg", True):
                a.set_tag("RG", r["rg"] if isinstance(r.get("rg"), str) else "rg_" + r["sample"])
            for k, v in (r.get("tags") or {}).items():
                a.set_tag(k, v)
            out.write(a)
    if sort:
        pysam.sort("-o", path, tmp)
        os.remove(tmp)
        pysam.index(path)
    return path


def write_ped(trios, path, family="fam", founders=None):
    """trios: [[father, mother, child]]; founders: None, "first" or "last" - also write the customary lines of the
    individuals without parents (paternal and maternal id 0), before or after the children's lines"""
    with open(path, "w") as f:
        lines = ["%s\t%s\t%s\t%s\t0\t1\n" % (family, ch, fa, mo) for fa, mo, ch in trios]
        extra = []
        if founders:
            children = {ch for _, _, ch in trios}
            seen = []
            for fa, mo, _ in trios:
                for x in (fa, mo):
                    if x not in children and x not in seen:
                        seen.append(x)
            extra = ["# founders\n"] + ["%s\t%s\t0\t0\t%d\t1\n" % (family, x, 1 + i % 2) for i, x in enumerate(seen)] + ["\n"]
        f.write("".join(extra + lines if founders == "first" else lines + extra))
    return path


# --------------------------------------------------------------------------- generators for pipeline cases

def gen_reads_for(draw, case, sample, chrom, *, nreads, length=(40, 300), paired_share=0, prefix="r", skip_share=0,
                  clip_share=0, eqx_share=0):
    """error-free reads of `sample` on `chrom`; returns list of read specs (not yet rendered)"""
    L = len(next(c for c in case["contigs"] if c["name"] == chrom)["seq"])
    ploidy = len(case["haps"][sample][chrom])
    specs = []
    for i in range(nreads):
        h = draw(st.integers(0, ploidy - 1))
        n = draw(st.integers(*length))
        s = draw(st.integers(0, max(0, L - 20)))
        e = min(L, s + n)
        spec = {"name": "%s_%s_%s_%d" % (prefix, sample, chrom, i), "sample": sample, "chrom": chrom, "hap": h, "segments": [[s, e]]}
        r = draw(st.integers(0, 99))
        if r < paired_share:
            gap = draw(st.integers(0, 400))
            n2 = draw(st.integers(*length))
            s2 = min(L - 1, e + gap)
            e2 = min(L, s2 + n2)
            if e2 > s2:
                spec["pair"] = [s2, e2]
        elif r < paired_share + skip_share:
            gap = draw(st.integers(5, 200))
            n2 = draw(st.integers(*length))
            s2 = min(L - 1, e + gap)
            e2 = min(L, s2 + n2)
            if e2 > s2 + 1:
                spec["segments"].append([s2, e2])
        if draw(st.integers(0, 99)) < clip_share:
            k1, k2 = draw(st.sampled_from([0, 1, 2, 4, 6, 20])), draw(st.sampled_from([0, 1, 2, 4, 6, 20]))
            spec["clips"] = ["".join(draw(st.sampled_from(BASES)) for _ in range(k1)),
                             "".join(draw(st.sampled_from(BASES)) for _ in range(k2)),
                             draw(st.sampled_from([0, 0, 3, 30, 150])), draw(st.sampled_from([0, 0, 2, 50]))]
        if draw(st.integers(0, 99)) < eqx_share:
            spec["eqx"] = True
        specs.append(spec)
    return specs


def render_specs(case, specs):
    """turn read specs into BAM-ready read dicts (paired specs give two records)"""
    out = []
    seqs = {c["name"]: c["seq"] for c in case["contigs"]}
    for sp in specs:
        chrom = sp["chrom"]
        variants = case["variants"][chrom]
        hap = sp.get("alleles") or case["haps"][sp["sample"]][chrom][sp["hap"]]   # "alleles": explicit allele per variant
        r = render_read(seqs[chrom], variants, hap, sp["segments"], clips=sp.get("clips"), eqx=sp.get("eqx", False))
        if r is None:
            continue
        base = {"name": sp["name"], "sample": sp["sample"], "chrom": chrom, "hap": sp["hap"], "spec": sp}
        base.update(r)
        base.update({k: sp[k] for k in ("mapq", "qual", "tags", "flag", "rg") if k in sp})
        if "pair" in sp:
            r2 = render_read(seqs[chrom], variants, hap, [sp["pair"]])
            if r2 is not None:
                m = dict(base)
                m.update(r2)
                if "pair_qual" in sp:
                    m["qual"] = sp["pair_qual"]        # base quality of the second mate
                base["flag"] = 1 | 2 | 32 | 64
                m["flag"] = 1 | 2 | 16 | 128
                base["mate"] = {"chrom": chrom, "pos": m["pos"]}
                m["mate"] = {"chrom": chrom, "pos": base["pos"]}
                out.append(base)
                out.append(m)
                continue
        out.append(base)
    return out
