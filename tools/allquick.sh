#!/bin/bash
# tools/allquick.sh [seed ...] - every quick check on the current tree; prints one line per check, exits 1 if any is not green
cd "$(dirname "$0")/.."
rc=0
for s in "${@:-1}"; do
  for p in C01 C02 C03 C04 C05 C06 C07 C08 C09 C10 C11 C12 C13 C14 C15 C16 C17 C18 C19 C20; do
    out=$(VERIF_SEED=$s ./check $p --tier quick 2>&1); e=$?
    echo "$out" | grep -E "VIOLATION|HARNESS|KNOWN|tier=" | cut -c1-220
    [ $e -ne 0 ] && { echo "!! $p seed $s exit $e"; rc=1; }
  done
done
exit $rc
