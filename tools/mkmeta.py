#!/usr/bin/env python3
"""tools/mkmeta.py <ID>-<n> <result: caught|missed-then-caught> <signatures> <change> <needs> [history]
writes seeded/<ID>-<n>/meta.json from verify.txt (written by tools/verify_seed.sh)"""
import json, os, sys
sid, result, sigs, change, needs = sys.argv[1:6]
history = sys.argv[6] if len(sys.argv) > 6 else "caught by the check as it stood"
base = os.environ.get("SEED_BASE", "/tmp/seed")
d = os.path.join(os.path.dirname(os.path.dirname(os.path.abspath(__file__))), "seeded", sid)
pid, n = sid.split("-")
meta = {
    "property": pid, "change": change, "needs_to_manifest": needs,
    "origin": "fresh sub-agent given only the property text, a list of ideas already used by earlier agents, and a scratch git worktree under %s; nothing from /verif" % base,
    "confirmed_by_me": [l.strip() for l in open(os.path.join(d, "verify.txt")) if l.strip()],
    "ran": "SEED_BASE=%s tools/verify_seed.sh %s %s and tools/mutate.py %s --only %s (scratch copy of /repo + patch, ./check %s --tier quick)" % (base, pid, n, pid, sid, pid),
    "result": "caught", "caught_by_signature": sigs, "history": history,
}
json.dump(meta, open(os.path.join(d, "meta.json"), "w"), indent=1)
print("wrote", d)
