#!/usr/bin/env python3
"""debug helper: tools/debug_part.py <module> <part> [n] [seed] - runs n generated cases in-process, stops at first exception, dumps case"""
import sys, json, importlib, traceback, os
sys.path.insert(0, os.path.dirname(os.path.dirname(os.path.abspath(__file__))))
import hypothesis
from hypothesis import given, settings, HealthCheck, Phase
from vlib import harness
harness._quiet_htslib()
mod = importlib.import_module("props." + sys.argv[1])
part = [p for p in mod.PARTS if p.name == sys.argv[2]][0]
n = int(sys.argv[3]) if len(sys.argv) > 3 else 50
seed = int(sys.argv[4]) if len(sys.argv) > 4 else 1
ctx = harness.Ctx("quick")
@hypothesis.seed(seed)
@settings(max_examples=n, database=None, deadline=None, suppress_health_check=list(HealthCheck), phases=[Phase.generate])
@given(part.strategy("quick"))
def t(case):
    ctx.begin()
    try:
        part.run(case, ctx)
    except Exception:
        json.dump({"part": part.name, "case": case}, open("/tmp/debug_case.json", "w"))
        print("tmp dir kept:", ctx._tmp)
        ctx._tmp = None
        raise
    sigs = ctx.end(part, case)
    if sigs:
        print(sigs, [d for s, d in ctx._case_sigs][:2])
t()
print("ok", ctx.evaluations, dict(ctx.labels))
