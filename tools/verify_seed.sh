#!/bin/bash
# tools/verify_seed.sh <ID> [n]  - confirm a sub-agent's seeded change in its scratch worktree $SEED_BASE/<ID> (default /tmp/seed):
#   demo fails with the change, existing suite passes with it, demo passes without it. Then copy it to seeded/<ID>-<n>/.
ID=$1; N=${2:-1}; BASE=${SEED_BASE:-/tmp/seed}; W=$BASE/$ID; OUT=/verif/seeded/$ID-$N
cd $W || exit 2
test -s seed_out/patch.diff || { echo "no patch"; exit 2; }
COMPILED=$(grep -E '^\+\+\+ b/.*\.(pyx|pxd|cpp|h)$' seed_out/patch.diff | wc -l)
rebuild() { if [ "$COMPILED" != 0 ]; then /venv/bin/python setup.py build_ext -i -j 8 > build.log 2>&1 || { tail -5 build.log; return 1; }; fi; }
# make the working tree exactly "HEAD + the agent's patch" (concurrent agents once swapped changes through the shared stash)
git checkout -- whatshap src && git apply seed_out/patch.diff || { echo "cannot apply seed_out/patch.diff"; exit 2; }
rebuild || exit 2
env -u PYTHONPATH /venv/bin/python seed_out/demo.py > $BASE/$ID.demo_with.log 2>&1; WITH=$?
SUITE=$(env -u PYTHONPATH -u WHATSHAP_VERIF_TRACE /venv/bin/python -m pytest -q -p no:cacheprovider --timeout=900 2>&1 | tail -1)
# (git stash is shared between all worktrees of a repository: never use it while other agents work)
git diff -- whatshap src > $BASE/$ID.current.diff
git apply -R $BASE/$ID.current.diff || exit 2
rebuild
env -u PYTHONPATH /venv/bin/python seed_out/demo.py > $BASE/$ID.demo_without.log 2>&1; WITHOUT=$?
git apply $BASE/$ID.current.diff || exit 2
rebuild
echo "demo_with=$WITH demo_without=$WITHOUT suite='$SUITE' compiled_files=$COMPILED"
mkdir -p $OUT && cp seed_out/patch.diff seed_out/demo.py $OUT/ && cp seed_out/notes.md $OUT/notes.md 2>/dev/null
cat > $OUT/verify.txt <<EOT
demo exit status with the change: $WITH
demo exit status without the change: $WITHOUT
existing suite with the change: $SUITE
EOT
