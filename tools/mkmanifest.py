#!/usr/bin/env python3
"""Writes MANIFEST.json from the table below (single source; keeps the file valid)."""
import json, os, subprocess
VERIF = os.path.dirname(os.path.dirname(os.path.abspath(__file__)))

CHECKS = {
 "C18": dict(
    technique="stateful property-based testing (Hypothesis rule-based machines) against dict / relabelling models, plus exhaustive enumeration of short operation sequences",
    text="Generated-history search: rule-based state machines drive PriorityQueue and ComponentFinder and compare with an abstract model after every step; all short sequences over a small alphabet are enumerated exhaustively. Gives strong evidence over small item/score domains, no proof for unbounded histories.",
    note="Trusted: the dict/relabelling models and Python tuple ordering as the definition of lexicographic score order; operations the code documents as illegal (push of a queued item, change_score of an absent one, pop on empty) are not generated.",
    ref="DESIGN.md section 4, C18"),
 "C19": dict(
    technique="exhaustive small-scope enumeration plus Hypothesis-sampled cases against the VCF index formula and a textbook Levenshtein DP",
    text="All genotypes up to ploidy 8 x 8 alleles (10 x 10 thorough) and all string pairs over small alphabets up to a bounded length with every band are enumerated; larger ploidies/alleles (to 14/16) and strings to length 200 are sampled. Exhaustive inside the stated bounds, sampled beyond.",
    note="Trusted: math.comb-based VCF ordering formula and the full-matrix Levenshtein reference; pickle is not exercised because Genotype cannot be pickled by construction.",
    ref="DESIGN.md section 4, C19"),
 "C07": dict(
    technique="property-based testing (Hypothesis) of readselection against an interval-counting oracle (cap + maximality)",
    text="Generated read sets (gapped / paired-like reads, preferred sources, bridging on/off, caps 1-7) are run through readselection; the oracle recounts span coverage and checks subset, cap and maximality; whatshap phase runs (single, trio, phased-VCF pseudo reads as preferred source) are checked against the cap through the trace hook. Thousands of distinct at-the-cap cases per run; no proof of absence.",
    note="Trusted: the interval-counting oracle; reads cover >= 2 variants (documented precondition).",
    ref="DESIGN.md section 4, C07"),
 "C01": dict(
    technique="property-based testing (Hypothesis) and exhaustive small-scope enumeration of PedigreeDPTable against a brute-force PedMEC oracle (cost, witness, tie rule)",
    text="Generated read matrices x pedigrees (single, unrelated, trio, quartet, three generations) x genotype/likelihood modes x recombination costs are solved by the real DP table and by an exponential brute force; cost, returned witness and per-column tie flags are compared. All matrices up to 3 reads x 3 columns are enumerated in the thorough tier. Bounded: <= 8 reads, <= 10 columns, <= 2 trios.",
    note="Trusted: the brute-force objective in vlib/oracles.py (definition of weighted PedMEC as implemented by the column cost definition in the paper/code comments); instances respect the constructor's documented preconditions (sorted reads, positions superset).",
    ref="DESIGN.md section 4, C01"),
 "C08": dict(
    technique="property-based testing (Hypothesis) of GenotypeDPTable against a plain forward-backward HMM summation; GT/GL/GQ arithmetic checked on written VCFs",
    text="Generated read matrices x priors x pedigrees (single, trio, quartet) are run through the real scaled/checkpointed forward-backward table and through a brute-force HMM that sums over every bipartition, transmission value and allele assignment; entries must agree to 1e-9. Written VCFs are re-read with htslib and GT/GL/GQ relations recomputed. Bounded to <= 6 reads, <= 10 columns.",
    note="Trusted: the HMM definition in vlib/oracles.py (emission constants, prior normalisation, Bernoulli transition) shared with the documented model; near-ties within 1e-5 are not judged.",
    ref="DESIGN.md section 4, C08"),
 "C13": dict(
    technique="property-based testing (Hypothesis) over a structured VCF model; htslib-parsed input/output diff, idempotence and unphase-after-phase / unphase-after-polyphase round trips",
    text="Generated VCFs of full variety (ploidy 1-6 per call, missing / partial genotypes, GT-less records, PS/HP/PQ with Integer or String PS, multi-ALT, duplicates) are unphased in-process; input and output are parsed with htslib and compared field by field; idempotence, unphase(phase(x)) = unphase(x) and unphase(polyphase(x)) = unphase(x) (ploidy 2-6) are checked as metamorphic relations.",
    note="Trusted: htslib (pysam) parsing on both sides; well-formed = complete header and sorted positions; floats compared at 5 significant digits.",
    ref="DESIGN.md section 4, C13"),
 "C12": dict(
    technique="property-based testing (Hypothesis) over a structured VCF model; independent count from the model vs. --tsv / --block-list / --gtf output",
    text="Generated VCFs (ploidy 2-4, PS or HP, missing/partial calls, interleaved and nested sets, several chromosomes, multi-ALT and duplicate records) are given to run_stats with drawn options; every count of the TSV, the block list and the identities of the statement are recomputed from the generating model, never by re-parsing the file.",
    note="Trusted: the counting rules written down in props/c12_stats.py (reader's documented skipping rule; het = complete GT with >= 2 distinct alleles); one phase encoding per file (mixed encodings are rejected by the reader by design).",
    ref="DESIGN.md section 4, C12"),
 "C11": dict(
    technique="property-based testing (Hypothesis): generated pairs/triples of phasings vs. brute-force definitions per intersection block, plus a metamorphic haplotype-relabelling relation",
    text="Pairs and triples of phased VCFs over common variants (ploidy 2-4, PS/HP, random block structures, multi-allelic sites, absent and unphased variants) are compared by run_compare; every TSV number, BED record, longest-block agreement and multiway count is recomputed from the generating model with brute-force definitions (orientation sequences, minima over permutation sequences); relabelling the haplotypes of any phase set must not change any output.",
    note="Trusted: the brute-force definitions in vlib/oracles.py; for ploidy >= 3 only the total switch+flip cost is compared; diploid switch counts are judged only on blocks whose genotypes agree (otherwise the notion is undefined).",
    ref="DESIGN.md section 4, C11"),
 "C14": dict(
    technique="property-based testing (Hypothesis): generated read files x haplotag lists x option combinations vs. an independent routing model",
    text="Unaligned BAM / FASTQ / FASTQ.gz inputs with duplicate names and empty sequences, 2- and 4-column lists with/without header and 'none' entries, ploidy 2-4 and every option combination are run through run_split; each output file must equal the subsequence of the input that a routing model built from the list sends to it, outputs must partition the input when all are requested, and histogram columns must match the routed counts.",
    note="Trusted: the routing model in props/c14_split.py; list names unique; ties for the largest block are not judged.",
    ref="DESIGN.md section 4, C14"),
 "C06": dict(
    technique="property-based testing (Hypothesis): generated BAMs with adversarially placed read boundaries and CIGAR shapes; oracle = the haplotype each read was copied from",
    text="Reads are rendered by the harness as exact copies of known haplotypes (indels at the normalised position; soft/hard clips, N skips, =/X, mate pairs, unrelated indels) with boundaries at every offset around variant ends; ReadSetReader.read runs in both modes and every (read, variant) pair is classified geometrically (fully covers / no overlap / partial) and the recorded allele compared with the truth.",
    note="Trusted: the read renderer in vlib/genome.py and the geometric definitions of 'fully covers' / 'does not overlap' stated in the evidence assumptions; partial overlaps are not judged.",
    ref="DESIGN.md section 4, C06"),
 "C02": dict(
    technique="property-based testing (Hypothesis) of the whole phase pipeline; oracle = the true haplotypes owned by the generator",
    text="The harness invents a reference, well separated variants of all four types and true haplotypes, renders error-free reads (single/paired, clips, =/X) at depths above and below the coverage cap and runs `whatshap phase` in-process with drawn options; every phase set of the decoded output must equal the true haplotype pair up to a swap of the whole set.",
    note="Trusted: the read renderer and VCF/BAM writers in vlib/genome.py, pysam for decoding; domain restricted to the default exact algorithm with reference and trusted genotypes.",
    ref="DESIGN.md section 4, C02"),
 "C03": dict(
    technique="property-based testing (Hypothesis) of the phase pipeline with the trace hook; oracle = naive connectivity over the reads handed to the solver",
    text="Component-shaped read layouts (paired reads with long inserts, N skips, tiny coverage caps, trios with homozygous sites) are phased in-process; the reads given to the solver come from the guarded trace hook (cross-checked with --output-read-list), connectivity is recomputed by naive relabelling and every PS/HP id must be the leftmost position of the component + 1, with the pedigree merge rule applied from the input genotypes.",
    note="Trusted: the trace hook dumps solver *inputs* faithfully (cross-checked against --output-read-list); trusted-genotype mode only.",
    ref="DESIGN.md section 4, C03"),
 "C04": dict(
    technique="property-based testing (Hypothesis): decorated full-variety VCFs + consistent BAMs through `whatshap phase`; oracle = htslib-parsed record-by-record diff of input and output",
    text="A pipeline case is decorated with extra samples, arbitrary INFO/FORMAT/FILTER content, missing and partial genotypes, multi-ALT / symbolic / ALT-less / duplicate-position records and pre-existing phasing, then phased in-process with drawn --sample/--chromosome/--tag/--only-snvs; both files are parsed with htslib and every field outside the phase encoding must be identical, non-selected calls untouched, newly phased calls restricted to heterozygous supported records, header definitions preserved.",
    note="Trusted: htslib parsing of both files; complete headers; diploid genotypes; Integer PS.",
    ref="DESIGN.md section 4, C04"),
 "C05": dict(
    technique="property-based testing (Hypothesis) of `whatshap phase --ped`; oracle = Mendel rules on the generator's genotypes, forced phases, and convention-free transmission consistency from the trace hook",
    text="Trios and quartets with planted recombinations, Mendelian conflicts and missing genotypes, reads at depth 0-6 or no phase input at all, uniform and map-based recombination costs are phased in-process; the output is checked for paternal|maternal order, exclusion of conflicting/missing variants in all members, phasing of read-free forced variants, and agreement between changes of the reported transmission bits and changes of the transmitted parental haplotype.",
    note="Trusted: the generator's pedigree model; the transmission vector as dumped by the guarded trace hook; only bit *changes* are interpreted.",
    ref="DESIGN.md section 4, C05"),
 "C20": dict(
    technique="property-based testing (Hypothesis): multi-chromosome / multi-family phase runs; metamorphic union-of-restricted-runs relation plus content checks against the trace hook and the VCF diff",
    text="Inputs with 2-3 chromosomes and unrelated samples / one or two trios are phased with all list options; each list of the full run must equal the multiset union of the lists of runs restricted to one chromosome and one family; listed reads are compared with the solver-instance trace and the output VCF, changed-genotype lines with the input/output GT diff, recombination entries with accessible positions and recomputed components.",
    note="Trusted: determinism of restricted runs (C16), the trace hook for read membership, htslib for the VCF diff.",
    ref="DESIGN.md section 4, C20"),
 "C09": dict(
    technique="property-based testing (Hypothesis) incl. a rule-based state machine over phase / unphase / re-phase histories; differential PS-vs-HP, write-then-decode round trip, reference run on the never-phased file",
    text="Four generated campaigns: the same input phased with both tags must decode identically; random block structures written by PhasedVcfWriter must be returned unchanged by VcfReader; a phased VCF used as the only phase input must reproduce every phase set; and histories of phase(tag, read subset, targets) / unphase steps on one file must leave, after every phase step, exactly the phase statements that the same run produces on the never-phased file (targets) and untouched statements (non-targets).",
    note="Trusted: pysam-level extraction of phase statements; orphan PS values on unphased genotypes are not counted as phase statements.",
    ref="DESIGN.md section 4, C09"),
 "C10": dict(
    technique="property-based testing (Hypothesis): generated phased VCF + mixed BAM through haplotag; conservation diff, ground-truth / quality-model decision oracle, metamorphic haplotype relabelling",
    text="Error-free reads of known haplotypes (single, paired, supplementary, secondary, duplicate, unmapped, stale tags, BX clouds) are tagged with drawn options; the output must be the input record for record except HP/PS/PC, tagged reads must carry their true haplotype in the reported phase set, and swapping the haplotypes of one phase set in the VCF must flip HP for exactly that set. A second campaign in --no-reference mode with planted mismatches and per-base qualities (ploidy 2-4) checks HP = strict arg-max of summed quality, PC = best - second, ties untagged.",
    note="Trusted: read renderer, pysam for BAM comparison; BX cloud pooling is modelled exactly in the quality campaign when the clouds of a barcode are separated by more than the distance cut-off (otherwise order dependent, validity only).",
    ref="DESIGN.md section 4, C10"),
 "C17": dict(
    technique="property-based testing (Hypothesis) of the history model-phasing -> haplotag -> partial unphase -> haplotagphase; oracle = the original phasing",
    text="A known phasing with disjoint phase sets tags error-free reads (haplotag, in-process); a random subset of variants keeps its phase in the VCF given to haplotagphase (defaults, reference); every call phased in the output must have the haplotype order and phase set of the tagging phasing, and calls phased in the input must come out byte-identical in GT/PS. Partial tagging (only the first set's reads keep their tags) exercises the vote-less path.",
    note="Trusted: C10's helpers (phased VCF writer, read renderer); the proviso that no read overlaps two phase sets is enforced by construction.",
    ref="DESIGN.md section 4, C17"),
 "C15": dict(
    technique="property-based testing (Hypothesis) of `whatshap polyphase`; validity oracle on the output (genotype multisets, passthrough diff, contiguous and correctly named blocks)",
    text="Polyploid cases (ploidy 2-6, tri-allelic sites, collapsed haplotypes, uneven depth, noisy reads, -B 0..5, --use-prephasing) are phased in-process; each phased genotype must be a permutation of the input genotype, only heterozygous calls may be phased, the rest of the VCF must be unchanged, and per sample the PS labels must form contiguous runs named by a read-covered heterozygous variant between the previous block and the block's first phased variant.",
    note="Validity of a heuristic's output only; read coverage is recomputed from the generator's read geometry with the tool's own filter (>= 2 fully covered heterozygous variants).",
    ref="DESIGN.md section 4, C15"),
 "C16": dict(
    technique="differential testing over configurations: generated tie-heavy cases executed as real subprocesses under different PYTHONHASHSEED values, thread counts and repetitions; outputs compared byte for byte (minus the recorded command line)",
    text="For every subcommand that writes a VCF, BAM or TSV the harness generates small ambiguity-rich cases (noisy equal-weight reads, read-free pedigree sites, read clouds spanning phase sets, polyploid inputs) and runs `python -m whatshap` 2-4 times with different hash seeds, --threads (polyphase) and --output-threads (haplotag); every output file must equal that of the first execution.",
    note="Hash seed, thread counts and repetition are controlled; the OS schedule of worker processes is only sampled. Set/dict-order and object-address dependence are exactly what these variations expose.",
    ref="DESIGN.md section 4, C16"),
}

NOT_YET = {}

# thorough tier = the parts' thorough budgets times this factor (measured: 15-25 min per check on 16 idle cores)
THOROUGH_SCALE = {"C01": 2, "C02": 3, "C03": 6, "C04": 4, "C05": 8, "C06": 4, "C07": 2, "C08": 3, "C09": 10, "C10": 5, "C11": 3,
                  "C12": 2, "C13": 3, "C14": 4, "C15": 2, "C16": 2, "C17": 10, "C20": 3}

def main():
    props = [json.loads(l) for l in open(os.path.join(VERIF, "properties.jsonl"))]
    checks, na = [], []
    for p in props:
        pid = p["id"]
        c = CHECKS.get(pid)
        if c is None:
            na.append({"property_id": pid, "reason": NOT_YET.get(pid, "check not built yet in this session (planned, see DESIGN.md section 4)")})
            continue
        checks.append({
            "property_id": pid,
            "quick_cmd": "./check %s --tier quick" % pid,
            "thorough_cmd": "./check %s --tier thorough" % pid + (" --scale %d" % THOROUGH_SCALE[pid] if pid in THOROUGH_SCALE else ""),
            "evidence_file": "evidence/%s.json" % pid,
            "replay_cmd_template": "./check %s --replay {path}" % pid,
            "engine": "hypothesis-campaign",
            "level_claimed": {"category": "exploration", "text": c["text"], "design_ref": c["ref"]},
            "level_note": c["note"],
            "technique": c["technique"],
        })
    hooks_commits = []
    try:
        out = subprocess.run(["git", "-C", "/repo", "log", "--format=%H %s"], capture_output=True, text=True).stdout
        hooks_commits = [l.split()[0] for l in out.splitlines() if " verif-hook:" in l or l.split(" ", 1)[1].startswith("verif-hook")]
    except Exception:
        pass
    m = {
        "version": 1,
        "setup_cmd": "./setup.sh",
        "hooks": {
            "guard": "WHATSHAP_VERIF_TRACE",
            "enable": "checks run whatshap with WHATSHAP_VERIF_TRACE=<file> set in the environment of the in-process call; no build flag (the hook is a guarded Python block in whatshap/cli/phase.py)",
            "baseline_off_cmd": "cd /repo && env -u WHATSHAP_VERIF_TRACE /venv/bin/python -m pytest -ra -q -p no:cacheprovider --timeout=900 --continue-on-collection-errors",
            "source_commits": hooks_commits,
            "add_only": True,
        },
        "engines": [
            {"name": "hypothesis-campaign", "path": "vlib/harness.py", "serves_properties": [c["property_id"] for c in checks],
             "kind_free_text": "16-shard Hypothesis campaigns (seeded by VERIF_SEED) over plain-data cases with explicit oracles, signature bucketing, deterministic re-run + shrinking per bucket, committed replay tier, exhaustive small scopes via itertools; code under test is rebuilt from /repo's working tree by vlib/build.py (content-hash keyed, out of tree)"},
        ],
        "checks": checks,
        "not_applicable": na,
        "notes": "Every check: exit 0 held / 1 VIOLATION property=<id> replay=<path> / 2 harness or build error. Known findings: known_findings.json. Design: DESIGN.md.",
    }
    with open(os.path.join(VERIF, "MANIFEST.json"), "w") as f:
        json.dump(m, f, indent=1)
        f.write("\n")
    try:
        import jsonschema
        jsonschema.validate(m, json.load(open("/root/.vp/MANIFEST.schema.json")))
        print("MANIFEST.json valid;", len(checks), "checks,", len(na), "not_applicable")
    except ImportError:
        print("written (jsonschema not available to validate)")

if __name__ == "__main__":
    main()
