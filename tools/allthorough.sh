#!/bin/bash
# tools/allthorough.sh ID... - the manifest's thorough command of each given check, one after the other
cd "$(dirname "$0")/.."
for p in "$@"; do
  cmd=$(/venv/bin/python -c "import json,sys; print([c['thorough_cmd'] for c in json.load(open('MANIFEST.json'))['checks'] if c['property_id']==sys.argv[1]][0])" $p)
  echo "## $cmd"
  bash -c "$cmd" 2>&1 | grep -E "VIOLATION|HARNESS|KNOWN|tier=" | cut -c1-250
done
