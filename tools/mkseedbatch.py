#!/usr/bin/env python3
"""SEED_BASE=/tmp/seedN tools/mkseedbatch.py C01 C07 ... : scratch worktrees, property texts and prompts for a batch of seeding
sub-agents (template: tools/seed_prompt_template.txt; the USED list is scraped from DESIGN.md section 8 and tools/mutants)."""
import json,subprocess,os,re
import os as _os
BASE=_os.environ.get('SEED_BASE','/tmp/seed')
props={json.loads(l)['id']:json.loads(l) for l in open('/verif/properties.jsonl')}
tmpl=open('/verif/tools/seed_prompt_template.txt').read().split('\n\n',1)[1]
design=open('/verif/DESIGN.md').read()
HINT={
'C01':'whatshap.core PedigreeDPTable(readset, recombcost, pedigree, distrust_genotypes, positions) with get_optimal_cost(), get_optimal_partitioning(), get_super_reads(); C++ in src/pedigreedptable.cpp, src/columniterator.cpp, src/pedigreecolumncostcomputer.cpp, src/columnindexingscheme.cpp, src/pedigreepartitions.cpp; see tests/test_pedigree*.py and tests/phasingutils.py',
'C03':'whatshap.cli.phase.run_whatshap(phase_input_files=[bam], variant_file=vcf, output=..., ...); find_components in whatshap/cli/phase.py or whatshap/cli/__init__.py; ComponentFinder in whatshap/core.pyx; PhasedVcfWriter in whatshap/vcf.py',
'C04':'whatshap.cli.phase.run_whatshap(...); PhasedVcfWriter / VcfAugmenter in whatshap/vcf.py',
'C06':'whatshap.variants.ReadSetReader([bam], reference=pysam.FastaFile or None).read(chromosome, variants, sample, fasta); whatshap/variants.py, whatshap/align.pyx, whatshap/bam.py',
'C08':'whatshap.core GenotypeDPTable(numeric_sample_ids, readset, recombcost, pedigree, positions=...).get_genotype_likelihoods(sample, pos); whatshap/cli/genotype.py run_genotype, determine_genotype; GenotypeVcfWriter in whatshap/vcf.py; C++ src/genotypedptable.cpp, src/genotypecolumncostcomputer.cpp, src/transitionprobabilitycomputer.cpp',
'C09':'whatshap.cli.phase.run_whatshap(..., tag="PS"|"HP"), whatshap.cli.unphase.run_unphase, whatshap.vcf.VcfReader(path, phases=True), PhasedVcfWriter in whatshap/vcf.py',
'C10':'whatshap.cli.haplotag.run_haplotag(variant_file, alignment_file, output=..., reference=..., regions=..., ...); whatshap/cli/haplotag.py',
'C13':'whatshap.cli.unphase.run_unphase(input_path, outfile)',
'C15':'whatshap.cli.polyphase.run_polyphase(phase_input_files, variant_file, ploidy, output=..., ...); whatshap/polyphase/*.py, whatshap/cli/polyphase.py, src/polyphase/*',
'C20':'whatshap.cli.phase.run_whatshap(..., read_list_filename=..., recombination_list_filename=..., gtchange_list_filename=..., ped=...)',
'C05':'whatshap.cli.phase.run_whatshap(..., ped=pedfile, genmap=..., recombrate=...); whatshap/pedigree.py; whatshap/cli/phase.py',
'C11':'whatshap.cli.compare.run_compare(vcf=[a,b,...], ploidy=2, tsv_pairwise=..., tsv_multiway=..., switch_error_bed=..., longest_block_tsv=..., only_snvs=...); src/polyphase/switchflipcalculator.cpp',
'C12':'whatshap.cli.stats.run_stats(vcf, tsv=..., gtf=..., block_list=..., chromosomes=[...], only_snvs=...)',
'C14':'whatshap.cli.split.run_split(reads_file, list_file, output_h1=..., output_h2=..., output_untagged=..., add_untagged=..., only_largest_block=..., discard_unknown_reads=..., read_lengths_histogram=...)',
'C17':'whatshap.cli.haplotag.run_haplotag then whatshap.cli.haplotagphase.run_haplotagphase(variant_file, alignment_file, reference, output=...)',
'C07':'whatshap.core.readselection(readset, max_cov, preferred_source_ids, bridging) and whatshap.cli.phase select_reads / run_whatshap(..., max_coverage=...); C++ src/readselect/* or whatshap/readselect.pyx',
'C02':'whatshap.cli.phase.run_whatshap(phase_input_files=[bam], variant_file=vcf, reference=fasta, output=...)',
'C16':'python -m whatshap phase|genotype|polyphase|haplotag|stats|compare|unphase|split|haplotagphase',
'C18':'whatshap.priorityqueue.PriorityQueue (push, pop, change_score, get_score_by_item, is_empty, len) and whatshap.core.ComponentFinder(positions) (merge, find); whatshap/priorityqueue.pyx, src/componentfinder.cpp',
'C19':'whatshap.core.Genotype (get_index, as_vector, is_homozygous, pickling, comparison), get_max_genotype_ploidy/alleles, genotype_from_index?; whatshap.align.edit_distance(s, t, maxdiff=-1); src/genotype.cpp, whatshap/align.pyx',
}
import sys
ids=sys.argv[1:]
for pid in ids:
    p=props[pid]
    open(f'{BASE}/{pid}.property.txt','w').write(f"id: {p['id']}\ntitle: {p['title']}\n\nstatement:\n{p['statement']}\n\nquantifier:\n{p['quantifier']}\n")
    d=f'{BASE}/{pid}'
    if not os.path.exists(d):
        subprocess.check_call(['git','-C','/repo','worktree','add','--detach',d,'HEAD'],stdout=subprocess.DEVNULL,stderr=subprocess.DEVNULL)
    used=[]
    for m in re.finditer(r'^\| ('+pid+r'-\d[^|]*)\| ([^|]*)\|',design,re.M):
        used.append(m.group(2).strip())
    for f in sorted(os.listdir(f'/verif/tools/mutants/{pid}')) if os.path.isdir(f'/verif/tools/mutants/{pid}') else []:
        used.append('('+f[:-5].replace('_',' ')+')')
    t=tmpl.replace('{DIR}',d).replace('{BASE}',BASE).replace('{ID}',pid).replace('{HINT}',HINT[pid]).replace('{USED}','; '.join(used))
    if pid!='C16':
        t=re.sub(r'\n  \(C16 only:.*?\)\n(?=  Hint)', '\n', t, flags=re.S)
    open(f'{BASE}/{pid}.prompt.txt','w').write(t)
    print(pid,len(used))
