#!/bin/bash
# Rebuild /repo's in-place extension modules (git-ignored artefacts used by the pinned suite) and run the suite.
cd /repo || exit 2
env -u PYTHONPATH /venv/bin/python /verif/vlib/_build_driver.py > /tmp/repo_build.log 2>&1 || { tail -30 /tmp/repo_build.log; exit 2; }
rm -rf /repo/build
env -u PYTHONPATH -u WHATSHAP_VERIF_TRACE /venv/bin/python -m pytest -q -p no:cacheprovider --timeout=900 --continue-on-collection-errors "$@" 2>&1 | tail -8
