#!/usr/bin/env python3
"""Sensitivity driver: apply one patch (tools/mutants/<ID>/*.diff or seeded/<ID>-*/patch.diff) to a scratch
copy of /repo (outside /repo and /verif), run ./check <ID> against it, report whether the check caught it,
remove the scratch copy.  Usage: tools/mutate.py <ID|all> [--tier quick] [--only name] [--suite]"""
import argparse, glob, json, os, shutil, subprocess, sys, tempfile, time

VERIF = os.path.dirname(os.path.dirname(os.path.abspath(__file__)))


def scratch_copy():
    d = tempfile.mkdtemp(prefix="wv-mut-", dir=os.environ.get("TMPDIR", "/var/tmp"))
    subprocess.check_call(["rsync", "-a", "--exclude", ".git", "--exclude", "build", "--exclude", "*.so",
                           "--exclude", "__pycache__", "--exclude", "tests/data", "/repo/", d + "/"])
    return d


def run_one(pid, patch, tier, suite=False):
    d = scratch_copy()
    try:
        p = subprocess.run(["patch", "-p1", "-s", "-i", os.path.abspath(patch)], cwd=d, capture_output=True, text=True)
        if p.returncode != 0:
            return {"patch": patch, "status": "patch-failed", "out": p.stdout + p.stderr}
        outdir = os.path.join(VERIF, "out", "mut", pid, os.path.basename(os.path.dirname(patch)) if patch.endswith("patch.diff") else os.path.basename(patch)[:-5])
        shutil.rmtree(outdir, ignore_errors=True)
        env = dict(os.environ, VERIF_REPO=d, VERIF_OUT=outdir)
        t0 = time.time()
        r = subprocess.run([os.path.join(VERIF, "check"), pid, "--tier", tier], env=env, capture_output=True, text=True)
        out = r.stdout + r.stderr
        res = {"patch": os.path.relpath(patch, VERIF), "property": pid, "exit": r.returncode, "wall_s": round(time.time() - t0, 1),
               "status": {0: "MISSED", 1: "caught", 2: "harness-error"}.get(r.returncode, "exit%d" % r.returncode),
               "lines": [l for l in out.splitlines() if l.startswith(("VIOLATION", "KNOWN", "HARNESS", "C"))][:8]}
        if r.returncode == 2:
            res["out"] = out[-3000:]
        return res
    finally:
        shutil.rmtree(d, ignore_errors=True)


def main():
    ap = argparse.ArgumentParser()
    ap.add_argument("prop")
    ap.add_argument("--tier", default="quick")
    ap.add_argument("--only")
    a = ap.parse_args()
    pids = [a.prop.upper()] if a.prop != "all" else sorted(os.listdir(os.path.join(VERIF, "tools", "mutants")))
    results = []
    for pid in pids:
        patches = sorted(glob.glob(os.path.join(VERIF, "tools", "mutants", pid, "*.diff")))
        patches += sorted(glob.glob(os.path.join(VERIF, "seeded", pid + "-*", "patch.diff")))
        for patch in patches:
            if a.only and a.only not in patch:
                continue
            r = run_one(pid, patch, a.tier)
            results.append(r)
            print(json.dumps(r), flush=True)
    missed = [r for r in results if r["status"] != "caught"]
    print("summary: %d patches, %d caught, %d not caught" % (len(results), len(results) - len(missed), len(missed)))
    return 1 if missed else 0


if __name__ == "__main__":
    sys.exit(main())
