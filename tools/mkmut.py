#!/usr/bin/env python3
"""helper: mkmut.mk(name, file, old, new, pid) creates tools/mutants/<pid>/<name>.diff from a one-place edit of /repo (then reverts)"""
import subprocess, os
def mk(name, fn, old, new, pid, nth=None):
    s = open('/repo/' + fn).read()
    cnt = s.count(old)
    if nth is None:
        assert cnt == 1, (name, cnt)
        s2 = s.replace(old, new)
    else:
        assert cnt > nth, (name, cnt)
        parts = s.split(old)
        s2 = old.join(parts[:nth + 1]) + new + old.join(parts[nth + 1:])
    assert subprocess.run(['git', '-C', '/repo', 'status', '--porcelain', '-uno'], capture_output=True, text=True).stdout == '', 'repo dirty'
    open('/repo/' + fn, 'w').write(s2)
    d = subprocess.run(['git', '-C', '/repo', 'diff'], capture_output=True, text=True).stdout
    os.makedirs(f'/verif/tools/mutants/{pid}', exist_ok=True)
    open(f'/verif/tools/mutants/{pid}/{name}.diff', 'w').write(d)
    subprocess.check_call(['git', '-C', '/repo', 'checkout', '--', '.'])
