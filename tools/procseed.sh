#!/bin/bash
# SEED_BASE=/tmp/seedN tools/procseed.sh ID N : confirm the sub-agent's change (verify_seed.sh), then run ./check ID against it (mutate.py)
ID=$1; N=$2
cd "$(dirname "$0")/.."
if [ ! -f seeded/$ID-$N/verify.txt ]; then tools/verify_seed.sh $ID $N 2>&1 | tail -1; fi
tools/mutate.py $ID --only $ID-$N 2>&1 | cut -c1-700
