#!/bin/bash
# proc.sh ID N : verify + mutate
ID=$1; N=$2
cd /verif
if [ ! -f seeded/$ID-$N/verify.txt ]; then SEED_BASE=/tmp/seed9 tools/verify_seed.sh $ID $N 2>&1 | tail -1; fi
tools/mutate.py $ID --only $ID-$N 2>&1 | cut -c1-700
