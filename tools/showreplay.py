#!/usr/bin/env python3
import json, sys
for f in sys.argv[1:]:
    r = json.load(open(f))
    print("==", r.get("signature"), "count", r.get("count_in_campaign"), f)
    print("   detail:", r.get("detail", "")[-700:])
    c = r["case"]
    s = json.dumps(c)
    print("   case:", s[:1500])
